//! A scripted pair of real endpoints for the input sweeps (engine E): no
//! exploration, the caller decides every step.

use crate::ep::Cb;
use crate::ep::Ep;
use crate::ep::Ev;
use crate::model::Variant;
use crate::model::RANDOM;
use std::collections::VecDeque;

pub struct Pair<E: Ep> {
    pub ep: [E; 2],
    pub now: u64,
    /// net[i] = datagrams in flight toward side i (FIFO)
    pub net: [VecDeque<Vec<u8>>; 2],
    pub variant: Variant,
    /// every datagram ever handed to the send callback, per sender (refused ones included)
    pub emitted: [Vec<Vec<u8>>; 2],
    /// the environment refuses the first `fail_next[side]` datagrams of the next call on that
    /// side (send error); `errors[side]` counts the errors the library reported back
    pub fail_next: [u8; 2],
    pub errors: [u32; 2],
    /// values the random source of each side hands out first (an "unlucky" source that draws
    /// reserved values a few times before it behaves)
    pub unlucky: [Vec<[u8; 4]>; 2],
    /// random draws made so far, per side
    pub draws: [u8; 2],
}

const CONNECT6_TOKEN: &[u8] = b"\x10\x00\x00\x01TKEN\xff\xff\xff\xff";
const CONNECT6_PLAIN: &[u8] = b"\x10\x00\x00\x01";

impl<E: Ep> Pair<E> {
    pub fn new(variant: Variant) -> Pair<E> {
        Pair {
            ep: [E::new(), E::new()],
            now: 1_000_000_000,
            net: [VecDeque::new(), VecDeque::new()],
            variant,
            emitted: [Vec::new(), Vec::new()],
            fail_next: [0, 0],
            errors: [0, 0],
            unlucky: [Vec::new(), Vec::new()],
            draws: [0, 0],
        }
    }
    pub fn clone_pair(&self) -> Pair<E> {
        Pair {
            ep: [self.ep[0].vclone(), self.ep[1].vclone()],
            now: self.now,
            net: self.net.clone(),
            variant: self.variant,
            emitted: [Vec::new(), Vec::new()],
            fail_next: [0, 0],
            errors: [0, 0],
            unlucky: [Vec::new(), Vec::new()],
            draws: self.draws,
        }
    }
    /// Run `f` on endpoint `side`; emitted datagrams go onto the network.
    pub fn with<R>(&mut self, side: usize, f: impl FnOnce(&mut E, &mut Cb) -> R) -> R {
        let mut cb = Cb::with_draws(self.now, RANDOM[side], self.draws[side]);
        cb.fail_sends = std::mem::take(&mut self.fail_next[side]);
        let pending_unlucky = self.unlucky[side].len();
        if pending_unlucky > 0 {
            let mut r = self.unlucky[side].clone();
            r.extend(cb.random.iter().cloned());
            cb.random = r;
        }
        let r = f(&mut self.ep[side], &mut cb);
        if pending_unlucky > 0 {
            let used = cb.random_calls.min(pending_unlucky);
            self.unlucky[side].drain(..used);
        }
        self.draws[side] = self.draws[side].wrapping_add(cb.random_calls as u8);
        self.errors[side] += cb.errors;
        for (d, _) in &cb.all {
            self.emitted[side].push(d.clone());
        }
        for mut d in cb.out {
            if self.variant == Variant::V6N && side == 0 && d == CONNECT6_TOKEN {
                d = CONNECT6_PLAIN.to_vec();
            }
            self.net[1 - side].push_back(d);
        }
        r
    }
    /// Deliver the oldest datagram toward `to`; returns the events.
    pub fn deliver(&mut self, to: usize) -> Option<(Vec<Ev>, Vec<String>)> {
        let d = self.net[to].pop_front()?;
        Some(self.feed(to, &d))
    }
    pub fn feed(&mut self, to: usize, d: &[u8]) -> (Vec<Ev>, Vec<String>) {
        let mut ev = Vec::new();
        let mut warn = Vec::new();
        self.with(to, |e, cb| e.feed(cb, d, &mut ev, &mut warn));
        (ev, warn)
    }
    /// Deliver everything until the network is quiet; returns events per side.
    pub fn settle(&mut self) -> [Vec<Ev>; 2] {
        let mut evs = [Vec::new(), Vec::new()];
        let mut guard = 0;
        while !self.net[0].is_empty() || !self.net[1].is_empty() {
            for to in [1usize, 0usize] {
                if let Some((e, _)) = self.deliver(to) {
                    evs[to].extend(e);
                }
            }
            guard += 1;
            assert!(guard < 10_000, "network does not settle");
        }
        evs
    }
    pub fn advance(&mut self, us: u64) {
        self.now += us;
    }
    pub fn tick_due(&mut self) {
        for side in 0..2 {
            if let Some(t) = self.ep[side].needs_tick() {
                if t <= self.now {
                    self.with(side, |e, cb| e.tick(cb));
                }
            }
        }
    }
    /// Loss-free handshake, then one non-vital chunk from the client so that
    /// the acceptor is online too. Both sides online, nothing in flight.
    pub fn online(variant: Variant) -> Pair<E> {
        let mut p: Pair<E> = Pair::new(variant);
        p.with(0, |e, cb| e.connect(cb));
        p.settle();
        p.with(0, |e, cb| {
            assert!(e.send(cb, b"hi!", false));
            e.flush(cb)
        });
        p.settle();
        let v = [p.ep[0].view(p.now), p.ep[1].view(p.now)];
        assert_eq!(v[0].state, E::ONLINE, "client not online after handshake");
        assert_eq!(v[1].state, E::ONLINE, "server not online after handshake");
        p.emitted = [Vec::new(), Vec::new()];
        p
    }
}
