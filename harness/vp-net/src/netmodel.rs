//! C20: explicit-state model of one real `Net` endpoint serving several
//! remote addresses. Per address there is a real remote `Connection` (the
//! environment, producing realistic datagrams) and a *reference* `Connection`
//! that is fed exactly the projection of the history to that address. After
//! every step the Net's events, outgoing datagrams (with destination), timing
//! and per-peer state must equal those of the references.

use crate::ep::Cb;
use crate::ep::Ep;
use crate::ep::Ev;
use libtw2_net::connection::Connection;
use libtw2_net::net;
use libtw2_net::net::ChunkOrEvent;
use libtw2_net::net::Net;
use libtw2_net::net::PeerId;
use libtw2_net::verif::ConnView;
use libtw2_net::verif::NetView;
use libtw2_net::Timestamp;
use serde_json::json;
use serde_json::Value;
use stateright::Model;
use stateright::Property;
use std::collections::BTreeMap;
use std::convert::Infallible;
use std::hash::Hash;
use std::hash::Hasher;
use std::sync::atomic::AtomicU64;
use std::sync::atomic::Ordering;
use std::sync::Arc;
use std::sync::Mutex;
use vp_core::catch;
use vp_core::panic_sig;
use vp_core::Run;

pub type Addr = u8;

const CONNECT_TOKEN: &[u8] = b"\x10\x00\x00\x01TKEN\xff\xff\xff\xff";
const CONNECT_PLAIN: &[u8] = b"\x10\x00\x00\x01";
const RANDOM_NET: [u8; 4] = [0x12, 0x34, 0x56, 0x78];
const RANDOM_REMOTE: [u8; 4] = [0x9a, 0xbc, 0xde, 0xf1];

pub struct NetCb {
    pub now: u64,
    pub out: Vec<(Addr, Vec<u8>)>,
    pub random_calls: usize,
    /// the address the current call concerns and the draws made for it so far:
    /// random values differ per address and per draw, and the per-address
    /// reference connection is given the same sequence
    pub cur: Addr,
    pub drawn: u8,
}

/// The environment refuses the next `fails` datagrams (a transient socket error): the
/// datagram is lost and the call reports the error.
pub struct FailCb<'a> {
    pub inner: &'a mut NetCb,
    pub fails: u8,
}

#[derive(Debug)]
pub struct SendFailed;

impl<'a> net::Callback<Addr> for FailCb<'a> {
    type Error = SendFailed;
    fn secure_random(&mut self, buffer: &mut [u8]) {
        net::Callback::<Addr>::secure_random(self.inner, buffer)
    }
    fn send(&mut self, addr: Addr, data: &[u8]) -> Result<(), SendFailed> {
        if self.fails > 0 {
            self.fails -= 1;
            return Err(SendFailed);
        }
        self.inner.out.push((addr, data.to_vec()));
        Ok(())
    }
    fn time(&mut self) -> Timestamp {
        net::Callback::<Addr>::time(self.inner)
    }
}

/// The environment refuses the first datagram addressed to `addr`.
pub struct FailAddrCb<'a> {
    pub inner: &'a mut NetCb,
    pub addr: Addr,
    pub fails: u8,
}

impl<'a> net::Callback<Addr> for FailAddrCb<'a> {
    type Error = SendFailed;
    fn secure_random(&mut self, buffer: &mut [u8]) {
        net::Callback::<Addr>::secure_random(self.inner, buffer)
    }
    fn send(&mut self, addr: Addr, data: &[u8]) -> Result<(), SendFailed> {
        if addr == self.addr && self.fails > 0 {
            self.fails -= 1;
            return Err(SendFailed);
        }
        self.inner.out.push((addr, data.to_vec()));
        Ok(())
    }
    fn time(&mut self) -> Timestamp {
        net::Callback::<Addr>::time(self.inner)
    }
}

fn random_for(addr: Addr, k: u8) -> [u8; 4] {
    [RANDOM_NET[0], RANDOM_NET[1], RANDOM_NET[2] ^ (addr + 1), RANDOM_NET[3].wrapping_add(k.wrapping_mul(17))]
}

impl net::Callback<Addr> for NetCb {
    type Error = Infallible;
    fn secure_random(&mut self, buffer: &mut [u8]) {
        let v = random_for(self.cur, self.drawn.wrapping_add(self.random_calls as u8));
        self.random_calls += 1;
        for (i, b) in buffer.iter_mut().enumerate() {
            *b = v[i % 4];
        }
    }
    fn send(&mut self, addr: Addr, data: &[u8]) -> Result<(), Infallible> {
        self.out.push((addr, data.to_vec()));
        Ok(())
    }
    fn time(&mut self) -> Timestamp {
        Timestamp::from_usecs_since_epoch(self.now)
    }
}

#[derive(Clone, Debug)]
pub struct NCfg {
    pub accepting: bool,
    pub addrs: u8,
    pub remote_sends: u8,
    pub net_sends: u8,
    pub drops: u8,
    pub advances: u8,
    pub garbage: u8,
    pub net_connects: u8,
    pub disconnects: u8,
    pub cap: usize,
    pub start_peer_id: u32,
    /// the application may leave connection requests undecided for any number of steps
    pub defer: bool,
    /// how often the 32-bit peer id counter may come round to the smallest live peer id
    /// (what 2^32 - k connect/ignore pairs from other addresses do to it)
    pub wraps: u8,
    /// the environment may refuse the close datagram of a disconnect (send error)
    pub send_faults: bool,
}

impl NCfg {
    pub fn label(&self) -> String {
        format!(
            "net accepting={} addrs{} rsend{} nsend{} drops{} adv{} garbage{} nconn{} disc{} cap{} pid0={} defer={} wraps={} send_faults={}",
            self.accepting,
            self.addrs,
            self.remote_sends,
            self.net_sends,
            self.drops,
            self.advances,
            self.garbage,
            self.net_connects,
            self.disconnects,
            self.cap,
            self.start_peer_id,
            self.defer,
            self.wraps,
            self.send_faults
        )
    }
}

#[derive(Clone, Copy, Debug, Eq, Hash, PartialEq)]
pub enum Policy {
    Accept,
    Reject,
    Ignore,
    /// leave the peer pending; the application decides in a later step (`NetDecide`)
    Defer,
    /// reject while the environment refuses the close datagram (send error): the call reports
    /// the error, the peer is gone all the same
    RejectSendFails,
}

#[derive(Clone, Copy, Debug, Eq, Hash, PartialEq)]
pub enum NAct {
    RemoteConnect(Addr),
    RemoteSend(Addr),
    RemoteDisconnect(Addr),
    /// deliver in-flight datagram i to the Net; if it produces a Connect
    /// event, the application reacts with the policy at once
    ToNet(u8, Policy),
    ToRemote(Addr, u8),
    DropToNet(u8),
    Garbage(Addr, u8),
    NetConnect(Addr),
    NetSend(Addr, bool),
    NetFlush(Addr),
    NetDisconnect(Addr),
    /// disconnect while the environment refuses the close datagram: the call reports the
    /// error, the datagram is lost, the peer is gone all the same
    NetDisconnectSendFails(Addr),
    /// the application decides about a pending peer it left undecided
    NetDecide(Addr, Policy),
    /// the peer id counter has come round: the next id it hands out is the smallest live one
    CounterWrap,
    Advance,
    NetTick,
    /// a tick during which the environment refuses the first datagram addressed to this peer:
    /// the error is reported, that datagram is lost, every other peer is served as usual
    NetTickSendFails(Addr),
    RemoteTick(Addr),
}

pub const GARBAGE: [(&str, &[u8]); 12] = [
    ("connect+token", CONNECT_TOKEN),
    ("connect", CONNECT_PLAIN),
    // connection requests whose other header fields are unusual (a connection ignores them)
    ("connect ack=5", b"\x10\x05\x00\x01"),
    ("connect+token ack=0x3ff resend", b"\x53\xff\x00\x01TKEN\xff\xff\xff\xff"),
    ("connect chunks=3", b"\x10\x00\x03\x01"),
    ("connect+trailing", b"\x10\x00\x00\x01zz"),
    ("connect+token ack=0x100", b"\x11\x00\x00\x01TKEN\xff\xff\xff\xff"),
    ("close", b"\x10\x00\x00\x04bye\x00"),
    ("keepalive", b"\x10\x00\x00\x00"),
    ("connless", b"\xff\xff\xff\xff\xff\xffinfo"),
    ("chunks", b"\x00\x00\x01\x40\x01\x01\x42"),
    ("junk", b"\x37\x99"),
];

/// What doc/packet.md says about a 0.6 datagram from an unknown address: a connection request
/// is a control packet (flag bit 0x10, not connectionless, not compressed) whose first payload
/// byte is 1; the acknowledge field, the resend flag, the chunk count and trailing bytes do not
/// matter. It offers the token extension iff the payload continues with "TKEN" and four bytes.
/// Returns Some(offers token).
pub fn connect_request(d: &[u8]) -> Option<bool> {
    if d.len() < 4 || d[0] & 0x10 == 0 || d[0] & 0x20 != 0 || d[0] & 0x80 != 0 || d[3] != 1 {
        return None;
    }
    Some(d.len() >= 12 && &d[4..8] == b"TKEN")
}

impl NAct {
    pub fn render(&self) -> String {
        match *self {
            NAct::Garbage(a, k) => format!("inject[{}] from {}", GARBAGE[k as usize].0, a),
            other => format!("{:?}", other),
        }
    }
}

pub struct PathNode {
    parent: Option<Arc<PathNode>>,
    act: NAct,
}

fn path_vec(p: &Option<Arc<PathNode>>) -> Vec<NAct> {
    let mut v = Vec::new();
    let mut cur = p.as_ref();
    while let Some(n) = cur {
        v.push(n.act);
        cur = n.parent.as_ref();
    }
    v.reverse();
    v
}

#[derive(Clone, Debug, Default, Eq, Hash, PartialEq)]
pub struct NBudgets {
    pub remote_sends: u8,
    pub net_sends: u8,
    pub drops: u8,
    pub advances: u8,
    pub garbage: u8,
    pub net_connects: u8,
    pub disconnects: u8,
    pub wraps: u8,
    /// ticks during which the environment refuses one peer's first datagram
    pub tick_faults: u8,
}

pub struct NSt {
    pub net: Arc<Net<Addr>>,
    pub view: Arc<NetView<Addr>>,
    /// reference connection per address (exists iff the Net should have a peer)
    pub refs: BTreeMap<Addr, Arc<Connection>>,
    pub pids: BTreeMap<Addr, u32>,
    /// connection requests the application has not decided yet (address -> request carried a token)
    pub pending: BTreeMap<Addr, bool>,
    pub remotes: Vec<Arc<Connection>>,
    pub rviews: Vec<Arc<ConnView>>,
    pub to_net: Vec<(Addr, Vec<u8>)>,
    pub to_remote: Vec<Vec<Vec<u8>>>,
    pub now: u64,
    pub b: NBudgets,
    pub nserial: [u8; 4],
    pub rserial: [u8; 4],
    /// random draws made on behalf of each address (by the Net and, in step, by its reference)
    pub draws: [u8; 4],
    /// draws made in the current (half-)step by the Net / by the reference (transient)
    pub step_draws: [u8; 2],
    pub path: Option<Arc<PathNode>>,
    pub depth: u16,
    pub bad: bool,
}

impl Clone for NSt {
    fn clone(&self) -> NSt {
        NSt {
            net: self.net.clone(),
            view: self.view.clone(),
            refs: self.refs.clone(),
            pids: self.pids.clone(),
            pending: self.pending.clone(),
            remotes: self.remotes.clone(),
            rviews: self.rviews.clone(),
            to_net: self.to_net.clone(),
            to_remote: self.to_remote.clone(),
            now: self.now,
            b: self.b.clone(),
            nserial: self.nserial,
            rserial: self.rserial,
            draws: self.draws,
            step_draws: [0, 0],
            path: self.path.clone(),
            depth: self.depth,
            bad: self.bad,
        }
    }
}

impl Hash for NSt {
    fn hash<H: Hasher>(&self, h: &mut H) {
        self.view.hash(h);
        self.rviews.hash(h);
        self.to_net.hash(h);
        self.to_remote.hash(h);
        self.b.hash(h);
        self.nserial.hash(h);
        self.rserial.hash(h);
        self.draws.hash(h);
        self.pending.hash(h);
        self.bad.hash(h);
    }
}
impl PartialEq for NSt {
    fn eq(&self, o: &NSt) -> bool {
        self.view == o.view
            && self.rviews == o.rviews
            && self.to_net == o.to_net
            && self.to_remote == o.to_remote
            && self.b == o.b
            && self.nserial == o.nserial
            && self.rserial == o.rserial
            && self.draws == o.draws
            && self.pending == o.pending
            && self.bad == o.bad
    }
}
impl Eq for NSt {}
impl std::fmt::Debug for NSt {
    fn fmt(&self, f: &mut std::fmt::Formatter) -> std::fmt::Result {
        write!(f, "NSt(depth {})", self.depth)
    }
}

impl NSt {
    pub fn key64(&self) -> u64 {
        let mut h = std::collections::hash_map::DefaultHasher::new();
        self.hash(&mut h);
        h.finish()
    }
}

#[derive(Default)]
pub struct NStats {
    pub calls: AtomicU64,
    pub compared_steps: AtomicU64,
    pub connect_events: AtomicU64,
    pub chunk_events: AtomicU64,
    pub ready_events: AtomicU64,
    pub disconnect_events: AtomicU64,
    pub max_live_peers: AtomicU64,
    pub datagrams_compared: AtomicU64,
}

pub struct NSample {
    pub key: u64,
    pub path: Vec<NAct>,
}

pub struct NetM {
    pub cfg: NCfg,
    pub run: Arc<Run>,
    pub stats: Arc<NStats>,
    pub samples: Arc<Mutex<Vec<NSample>>>,
    pub init: NSt,
}

type Fail = Option<(String, String)>;

fn net_payload(addr: Addr, serial: u8) -> Vec<u8> {
    vec![0xd0 | addr, serial, 0x11, addr.wrapping_mul(37)]
}
fn remote_payload(addr: Addr, serial: u8) -> Vec<u8> {
    vec![0xe0 | addr, serial, 0x22]
}

impl NetM {
    pub fn new(cfg: NCfg, run: Arc<Run>) -> NetM {
        let now = 1_000_000_000u64;
        let mut net: Net<Addr> = if cfg.accepting { Net::server() } else { Net::client() };
        net.verif_set_next_peer_id(cfg.start_peer_id);
        let remotes: Vec<Arc<Connection>> = (0..cfg.addrs).map(|_| Arc::new(Connection::new())).collect();
        let init = NSt {
            view: Arc::new(net.verif_view(Timestamp::from_usecs_since_epoch(now))),
            net: Arc::new(net),
            refs: BTreeMap::new(),
            pids: BTreeMap::new(),
            pending: BTreeMap::new(),
            rviews: remotes.iter().map(|r| Arc::new(r.view(now))).collect(),
            remotes,
            to_net: Vec::new(),
            to_remote: (0..cfg.addrs).map(|_| Vec::new()).collect(),
            now,
            b: NBudgets {
                remote_sends: cfg.remote_sends,
                net_sends: cfg.net_sends,
                drops: cfg.drops,
                advances: cfg.advances,
                garbage: cfg.garbage,
                net_connects: cfg.net_connects,
                disconnects: cfg.disconnects,
                wraps: cfg.wraps,
                tick_faults: if cfg.send_faults { 1 } else { 0 },
            },
            nserial: [0; 4],
            rserial: [0; 4],
            draws: [0; 4],
            step_draws: [0, 0],
            path: None,
            depth: 0,
            bad: false,
        };
        NetM {
            cfg,
            run,
            stats: Arc::new(NStats::default()),
            samples: Arc::new(Mutex::new(Vec::new())),
            init,
        }
    }

    fn violation(&self, s: &NSt, act: Option<NAct>, sig: &str, detail: &str) -> bool {
        let mut p = path_vec(&s.path);
        if let Some(a) = act {
            p.push(a);
        }
        self.run.violation(
            &format!("net:{}", sig),
            detail,
            json!({
                "model": "net-multi-peer",
                "cfg": self.cfg.label(),
                "actions": p.iter().map(|a| a.render()).collect::<Vec<_>>(),
            }),
        )
    }

    fn push_sorted<T: Ord>(v: &mut Vec<T>, x: T) {
        let pos = v.binary_search(&x).unwrap_or_else(|p| p);
        v.insert(pos, x);
    }

    /// Environment step on remote `a`.
    fn remote_call(&self, s: &mut NSt, a: Addr, f: impl FnOnce(&mut Connection, &mut Cb, &mut Vec<Ev>)) -> Vec<Ev> {
        let mut e = s.remotes[a as usize].vclone();
        let mut cb = Cb::new(s.now, RANDOM_REMOTE);
        let mut ev = Vec::new();
        f(&mut e, &mut cb, &mut ev);
        for d in cb.out {
            Self::push_sorted(&mut s.to_net, (a, d));
        }
        s.rviews[a as usize] = Arc::new(e.view(s.now));
        s.remotes[a as usize] = Arc::new(e);
        ev
    }

    /// Call on the reference connection of address `a`; returns (events, datagrams).
    fn ref_call(
        &self,
        s: &mut NSt,
        a: Addr,
        f: impl FnOnce(&mut Connection, &mut Cb, &mut Vec<Ev>),
    ) -> (Vec<Ev>, Vec<(Addr, Vec<u8>)>) {
        let mut e = s.refs[&a].vclone();
        let mut cb = Cb::new(s.now, RANDOM_NET);
        // the reference draws the same values the Net draws for this address in this step
        let k0 = s.draws[a as usize];
        cb.random = (0..8u8).map(|i| random_for(a, k0.wrapping_add(i))).collect();
        let mut ev = Vec::new();
        f(&mut e, &mut cb, &mut ev);
        s.refs.insert(a, Arc::new(e));
        s.step_draws[1] = s.step_draws[1].max(cb.random_calls as u8);
        (ev, cb.out.into_iter().map(|d| (a, d)).collect())
    }

    fn map_events(&self, s: &NSt, evs: &[OwnedEvent]) -> Result<Vec<(Addr, Ev)>, (String, String)> {
        let mut out = Vec::new();
        for e in evs {
            let addr_of = |pid: u32| -> Result<Addr, (String, String)> {
                s.pids
                    .iter()
                    .find(|(_, p)| **p == pid)
                    .map(|(a, _)| *a)
                    .ok_or_else(|| {
                        (
                            "event-for-unknown-peer".to_string(),
                            format!("event {:?} names peer id {} which no address owns", e, pid),
                        )
                    })
            };
            match e {
                OwnedEvent::Chunk(pid, vital, data) => out.push((addr_of(*pid)?, Ev::Chunk(data.clone(), *vital))),
                OwnedEvent::Connless(addr, pid, data) => {
                    if let Some(pid) = pid {
                        if addr_of(*pid)? != *addr {
                            return Err(("connless-pid-addr-mismatch".into(), format!("{:?}", e)));
                        }
                    }
                    out.push((*addr, Ev::Connless(data.clone())))
                }
                OwnedEvent::Ready(pid) => out.push((addr_of(*pid)?, Ev::Ready)),
                OwnedEvent::Disconnect(pid, r) => out.push((addr_of(*pid)?, Ev::Disconnect(r.clone()))),
                OwnedEvent::Connect(_) => {}
            }
        }
        Ok(out)
    }

    /// Compare the complete Net state with the references.
    fn compare_state(&self, s: &NSt) -> Fail {
        let v = &s.view;
        let mut seen = std::collections::BTreeSet::new();
        for p in &v.peers {
            if !seen.insert(p.pid) {
                return Some(("duplicate-peer-id".into(), format!("peer id {} used twice", p.pid)));
            }
        }
        if v.peers.len() != s.refs.len() {
            return Some((
                "peer-set-differs".into(),
                format!(
                    "Net has peers for addresses {:?}, the references exist for {:?}",
                    v.peers.iter().map(|p| p.addr).collect::<Vec<_>>(),
                    s.refs.keys().collect::<Vec<_>>()
                ),
            ));
        }
        let mut min_deadline: Option<u64> = None;
        for p in &v.peers {
            let r = match s.refs.get(&p.addr) {
                Some(r) => r,
                None => {
                    return Some((
                        "unexpected-peer".into(),
                        format!("Net has a peer for address {} which should not exist", p.addr),
                    ))
                }
            };
            if s.pids.get(&p.addr) != Some(&p.pid) {
                return Some((
                    "peer-id-differs".into(),
                    format!("address {} has peer id {} but the application was told {:?}", p.addr, p.pid, s.pids.get(&p.addr)),
                ));
            }
            let rv = r.view(s.now);
            if rv != p.conn {
                return Some((
                    "peer-state-differs".into(),
                    format!("address {}: Net peer state {:?} != reference {:?}", p.addr, p.conn, rv),
                ));
            }
            if let Some(t) = Ep::needs_tick(&**r) {
                min_deadline = Some(min_deadline.map(|m| m.min(t)).unwrap_or(t));
            }
        }
        let nt = s.net.needs_tick().to_opt().map(|t| t.as_usecs_since_epoch());
        if nt != min_deadline {
            return Some((
                "needs-tick-differs".into(),
                format!("Net::needs_tick {:?} != min over references {:?}", nt, min_deadline),
            ));
        }
        self.stats.max_live_peers.fetch_max(v.peers.len() as u64, Ordering::Relaxed);
        None
    }

    pub fn apply(&self, last: &NSt, act: NAct) -> Option<NSt> {
        self.stats.calls.fetch_add(1, Ordering::Relaxed);
        let mut s = last.clone();
        s.depth += 1;
        s.path = Some(Arc::new(PathNode {
            parent: last.path.clone(),
            act,
        }));
        let lp = last.path.clone();
        let label = self.cfg.label();
        let guard = self.run.watchdog.watch(Arc::new(move || {
            let mut p = path_vec(&lp);
            p.push(act);
            json!({"model": "net-multi-peer", "cfg": label, "actions": p.iter().map(|a| a.render()).collect::<Vec<_>>()})
        }));
        let r = catch(|| self.step(&mut s, act));
        drop(guard);
        let fail = match r {
            Ok(f) => f,
            Err(p) => Some((panic_sig(&p), format!("panic: {}", p))),
        };
        if let NAct::ToNet(..) | NAct::NetDecide(..) | NAct::NetDisconnectSendFails(_) | NAct::NetConnect(_) | NAct::NetSend(..) | NAct::NetFlush(_) | NAct::NetDisconnect(_) = act {
            // the address of the (last) call of this step
            let a = match act {
                NAct::NetConnect(a) | NAct::NetSend(a, _) | NAct::NetFlush(a) | NAct::NetDisconnect(a) | NAct::NetDisconnectSendFails(a) => Some(a),
                _ => None,
            };
            if let Some(a) = a {
                Self::commit_draws(&mut s, a);
            }
        }
        let fail = fail.or_else(|| self.compare_state(&s));
        if let Some((sig, detail)) = fail {
            if self.violation(last, Some(act), &sig, &detail) {
                return None;
            }
            s.bad = true;
        }
        Some(s)
    }

    /// The application's decision about a pending peer, on the Net and on its reference.
    fn decide(&self, s: &mut NSt, a: Addr, pid: PeerId, was_token: bool, policy: Policy) -> Fail {
        match policy {
            Policy::Accept => {
                let (_, out) = self.net_call(s, a, |n, cb| {
                    match n.accept(cb, pid) {
                        Ok(()) => {}
                        Err(e) => match e {},
                    }
                    vec![]
                });
                let (ev, exp) = self.ref_call(s, a, |e, cb, ev| {
                    let mut w = Vec::new();
                    Ep::feed(e, cb, if was_token { CONNECT_TOKEN } else { CONNECT_PLAIN }, ev, &mut w)
                });
                assert!(ev.is_empty());
                Self::commit_draws(s, a);
                self.expect_same("accept", vec![], vec![], out, exp, true)
            }
            Policy::Reject => {
                let (_, out) = self.net_call(s, a, |n, cb| {
                    match n.reject(cb, pid, b"full") {
                        Ok(()) => {}
                        Err(e) => match e {},
                    }
                    vec![]
                });
                let (_, exp) = self.ref_call(s, a, |e, cb, _| Ep::disconnect(e, cb, b"full"));
                s.refs.remove(&a);
                s.pids.remove(&a);
                self.expect_same("reject", vec![], vec![], out, exp, true)
            }
            Policy::RejectSendFails => {
                let mut reported = false;
                let (_, out) = self.net_call(s, a, |n, cb| {
                    let mut f = FailCb { inner: cb, fails: 1 };
                    reported = n.reject(&mut f, pid, b"full").is_err();
                    vec![]
                });
                let (_, exp) = self.ref_call(s, a, |e, cb, _| Ep::disconnect(e, cb, b"full"));
                s.refs.remove(&a);
                s.pids.remove(&a);
                if !exp.is_empty() && !reported {
                    return Some(("send-error-not-reported".into(), format!("reject of address {} did not report the failed send", a)));
                }
                let exp_after_loss: Vec<(Addr, Vec<u8>)> = exp.into_iter().skip(1).collect();
                self.expect_same("reject-send-fails", vec![], vec![], out, exp_after_loss, true)
            }
            Policy::Ignore => {
                let (_, out) = self.net_call(s, a, |n, _| {
                    n.ignore(pid);
                    vec![]
                });
                s.refs.remove(&a);
                s.pids.remove(&a);
                self.expect_same("ignore", vec![], vec![], out, vec![], true)
            }
            Policy::Defer => None,
        }
    }

    /// One call on a copy of the Net; returns owned events and datagrams.
    fn net_call(
        &self,
        s: &mut NSt,
        addr: Addr,
        f: impl FnOnce(&mut Net<Addr>, &mut NetCb) -> Vec<OwnedEvent>,
    ) -> (Vec<OwnedEvent>, Vec<(Addr, Vec<u8>)>) {
        let mut n = s.net.verif_clone();
        let mut cb = NetCb {
            now: s.now,
            out: Vec::new(),
            random_calls: 0,
            cur: addr,
            drawn: s.draws[addr as usize],
        };
        let ev = f(&mut n, &mut cb);
        s.step_draws[0] = s.step_draws[0].max(cb.random_calls as u8);
        s.view = Arc::new(n.verif_view(Timestamp::from_usecs_since_epoch(s.now)));
        s.net = Arc::new(n);
        for (a, d) in &cb.out {
            if (*a as usize) < s.to_remote.len() {
                Self::push_sorted(&mut s.to_remote[*a as usize], d.clone());
            }
        }
        (ev, cb.out)
    }

    /// After the Net and its reference have both handled one call for address
    /// `a`: advance that address's draw counter.
    fn commit_draws(s: &mut NSt, a: Addr) {
        let k = s.step_draws[0].max(s.step_draws[1]);
        s.draws[a as usize] = s.draws[a as usize].wrapping_add(k);
        s.step_draws = [0, 0];
    }

    fn feed_net(n: &mut Net<Addr>, cb: &mut NetCb, addr: Addr, data: &[u8]) -> Vec<OwnedEvent> {
        let mut buf = [0u8; 1400]; // MAX_PACKETSIZE: what the callers in the repository pass, the minimum accepted
        let mut w: Vec<String> = Vec::new();
        struct W<'a>(&'a mut Vec<String>);
        impl<'a> libtw2_warn::Warn<net::Warning<Addr>> for W<'a> {
            fn warn(&mut self, w: net::Warning<Addr>) {
                self.0.push(format!("{:?}", w));
            }
        }
        let (it, res) = n.feed(cb, &mut W(&mut w), addr, data, &mut buf[..]);
        match res {
            Ok(()) => {}
            Err(e) => match e {},
        }
        it.map(|e| match e {
            ChunkOrEvent::Chunk(c) => OwnedEvent::Chunk(c.pid.0, c.vital, c.data.to_vec()),
            ChunkOrEvent::Connless(c) => OwnedEvent::Connless(c.addr, c.pid.map(|p| p.0), c.data.to_vec()),
            ChunkOrEvent::Connect(p) => OwnedEvent::Connect(p.0),
            ChunkOrEvent::Ready(p) => OwnedEvent::Ready(p.0),
            ChunkOrEvent::Disconnect(p, r) => OwnedEvent::Disconnect(p.0, r.to_vec()),
        })
        .collect()
    }

    fn expect_same(
        &self,
        what: &str,
        got_ev: Vec<(Addr, Ev)>,
        exp_ev: Vec<(Addr, Ev)>,
        mut got_out: Vec<(Addr, Vec<u8>)>,
        mut exp_out: Vec<(Addr, Vec<u8>)>,
        ordered: bool,
    ) -> Fail {
        if got_ev != exp_ev {
            return Some((
                format!("events-differ:{}", what),
                format!("Net events {:?} != reference events {:?}", got_ev, exp_ev),
            ));
        }
        if !ordered {
            got_out.sort();
            exp_out.sort();
        }
        self.stats.datagrams_compared.fetch_add(got_out.len() as u64, Ordering::Relaxed);
        if got_out != exp_out {
            let f = |v: &Vec<(Addr, Vec<u8>)>| v.iter().map(|(a, d)| format!("->{}:{}", a, vp_core::hex_short(d))).collect::<Vec<_>>();
            return Some((
                format!("datagrams-differ:{}", what),
                format!("Net sent {:?}, references sent {:?}", f(&got_out), f(&exp_out)),
            ));
        }
        self.stats.compared_steps.fetch_add(1, Ordering::Relaxed);
        None
    }

    fn step(&self, s: &mut NSt, act: NAct) -> Fail {
        match act {
            NAct::RemoteConnect(a) => {
                self.remote_call(s, a, |e, cb, _| Ep::connect(e, cb));
                None
            }
            NAct::RemoteSend(a) => {
                s.b.remote_sends -= 1;
                let data = remote_payload(a, s.rserial[a as usize]);
                s.rserial[a as usize] += 1;
                self.remote_call(s, a, |e, cb, _| {
                    assert!(Ep::send(e, cb, &data, true));
                    Ep::flush(e, cb)
                });
                None
            }
            NAct::RemoteDisconnect(a) => {
                s.b.disconnects -= 1;
                self.remote_call(s, a, |e, cb, _| Ep::disconnect(e, cb, b"remote bye"));
                None
            }
            NAct::RemoteTick(a) => {
                self.remote_call(s, a, |e, cb, _| Ep::tick(e, cb));
                None
            }
            NAct::ToRemote(a, i) => {
                let d = s.to_remote[a as usize].remove(i as usize);
                self.remote_call(s, a, |e, cb, ev| {
                    let mut w = Vec::new();
                    Ep::feed(e, cb, &d, ev, &mut w)
                });
                None
            }
            NAct::DropToNet(i) => {
                s.b.drops -= 1;
                s.to_net.remove(i as usize);
                None
            }
            NAct::Garbage(a, k) => {
                s.b.garbage -= 1;
                Self::push_sorted(&mut s.to_net, (a, GARBAGE[k as usize].1.to_vec()));
                None
            }
            NAct::CounterWrap => {
                s.b.wraps -= 1;
                let lowest = s.view.peers.iter().map(|p| p.pid).min().expect("a live peer");
                let (_, out) = self.net_call(s, 0, |n, _| {
                    n.verif_set_next_peer_id(lowest);
                    vec![]
                });
                self.expect_same("counter-wrap", vec![], vec![], out, vec![], true)
            }
            NAct::Advance => {
                s.b.advances -= 1;
                let mut best: Option<u64> = None;
                let mut c = |t: Option<u64>| {
                    if let Some(t) = t {
                        if t > 0 {
                            best = Some(best.map(|b| b.min(t)).unwrap_or(t));
                        }
                    }
                };
                for v in s.rviews.iter().map(|v| &**v).chain(s.view.peers.iter().map(|p| &p.conn)) {
                    c(v.send);
                    if let Some(o) = &v.online {
                        for r in &o.resend_queue {
                            c(r.next_send);
                        }
                    }
                }
                s.now += best.expect("advance without deadline");
                s.view = Arc::new(s.net.verif_view(Timestamp::from_usecs_since_epoch(s.now)));
                for a in 0..s.remotes.len() {
                    s.rviews[a] = Arc::new(s.remotes[a].view(s.now));
                }
                None
            }
            NAct::ToNet(i, policy) => {
                let (a, d) = s.to_net.remove(i as usize);
                let (evs, out) = self.net_call(s, a, |n, cb| Self::feed_net(n, cb, a, &d));
                let had_peer = s.refs.contains_key(&a);
                // reference
                let (exp_ev, exp_out): (Vec<(Addr, Ev)>, Vec<(Addr, Vec<u8>)>);
                let mut expect_connect = false;
                if had_peer {
                    let (ev, o) = self.ref_call(s, a, |e, cb, ev| {
                        let mut w = Vec::new();
                        Ep::feed(e, cb, &d, ev, &mut w)
                    });
                    exp_ev = ev.into_iter().map(|e| (a, e)).collect();
                    exp_out = o;
                } else {
                    // unknown address: stateless
                    let connless = d.len() >= 6 && d[0] & 0x20 != 0;
                    let is_connect = connect_request(&d).is_some();
                    exp_ev = if connless { vec![(a, Ev::Connless(d[6..].to_vec()))] } else { vec![] };
                    exp_out = vec![];
                    expect_connect = is_connect && self.cfg.accepting;
                }
                let connects: Vec<u32> = evs.iter().filter_map(|e| if let OwnedEvent::Connect(p) = e { Some(*p) } else { None }).collect();
                if connects.len() != expect_connect as usize {
                    return Some((
                        "connect-event".into(),
                        format!("{} Connect events for datagram {} from address {} (peer existed: {}, accepting: {})", connects.len(), vp_core::hex_short(&d), a, had_peer, self.cfg.accepting),
                    ));
                }
                // events are mapped with the pid table from BEFORE peers are removed
                if expect_connect {
                    s.pids.insert(a, connects[0]);
                    s.refs.insert(a, Arc::new(Connection::new()));
                    self.stats.connect_events.fetch_add(1, Ordering::Relaxed);
                }
                let got_ev = match self.map_events(s, &evs) {
                    Ok(v) => v,
                    Err(f) => return Some(f),
                };
                for (_, e) in &got_ev {
                    match e {
                        Ev::Chunk(..) => self.stats.chunk_events.fetch_add(1, Ordering::Relaxed),
                        Ev::Ready => self.stats.ready_events.fetch_add(1, Ordering::Relaxed),
                        Ev::Disconnect(_) => self.stats.disconnect_events.fetch_add(1, Ordering::Relaxed),
                        _ => 0,
                    };
                }
                Self::commit_draws(s, a);
                if let Some(f) = self.expect_same("feed", got_ev.clone(), exp_ev, out, exp_out, true) {
                    return Some(f);
                }
                // a peer is gone after the remote disconnected
                if got_ev.iter().any(|(_, e)| matches!(e, Ev::Disconnect(_))) {
                    s.refs.remove(&a);
                    s.pids.remove(&a);
                }
                // an undecided peer that has gone (or is no longer unconnected) needs no decision
                if s.pending.contains_key(&a) && !s.view.peers.iter().any(|p| p.addr == a && p.conn.state == 0) {
                    s.pending.remove(&a);
                }
                if expect_connect {
                    let pid = PeerId(connects[0]);
                    let was_token = connect_request(&d).expect("connect request");
                    if policy == Policy::Defer {
                        s.pending.insert(a, was_token);
                        return None;
                    }
                    return self.decide(s, a, pid, was_token, policy);
                }
                None
            }
            NAct::NetDecide(a, policy) => {
                let was_token = s.pending.remove(&a).expect("pending");
                let pid = PeerId(s.pids[&a]);
                self.decide(s, a, pid, was_token, policy)
            }
            NAct::NetConnect(a) => {
                s.b.net_connects -= 1;
                let mut pid = 0;
                let (_, out) = self.net_call(s, a, |n, cb| {
                    let (p, r) = n.connect(cb, a);
                    match r {
                        Ok(()) => {}
                        Err(e) => match e {},
                    }
                    pid = p.0;
                    vec![]
                });
                s.pids.insert(a, pid);
                s.refs.insert(a, Arc::new(Connection::new()));
                let (_, exp) = self.ref_call(s, a, |e, cb, _| Ep::connect(e, cb));
                self.expect_same("connect", vec![], vec![], out, exp, true)
            }
            NAct::NetSend(a, vital) => {
                s.b.net_sends -= 1;
                let data = net_payload(a, s.nserial[a as usize]);
                s.nserial[a as usize] += 1;
                let pid = PeerId(s.pids[&a]);
                let (_, out) = self.net_call(s, a, |n, cb| {
                    match n.send(cb, net::Chunk { pid, vital, data: &data }) {
                        Ok(()) => {}
                        Err(_) => panic!("Net::send refused a 4-byte chunk"),
                    }
                    vec![]
                });
                let (_, exp) = self.ref_call(s, a, |e, cb, _| assert!(Ep::send(e, cb, &data, vital)));
                self.expect_same("send", vec![], vec![], out, exp, true)
            }
            NAct::NetFlush(a) => {
                let pid = PeerId(s.pids[&a]);
                let (_, out) = self.net_call(s, a, |n, cb| {
                    match n.flush(cb, pid) {
                        Ok(()) => {}
                        Err(e) => match e {},
                    }
                    vec![]
                });
                let (_, exp) = self.ref_call(s, a, |e, cb, _| Ep::flush(e, cb));
                self.expect_same("flush", vec![], vec![], out, exp, true)
            }
            NAct::NetDisconnect(a) => {
                s.b.disconnects -= 1;
                let pid = PeerId(s.pids[&a]);
                let (_, out) = self.net_call(s, a, |n, cb| {
                    match n.disconnect(cb, pid, b"net bye") {
                        Ok(()) => {}
                        Err(e) => match e {},
                    }
                    vec![]
                });
                let (_, exp) = self.ref_call(s, a, |e, cb, _| Ep::disconnect(e, cb, b"net bye"));
                s.refs.remove(&a);
                s.pids.remove(&a);
                self.expect_same("disconnect", vec![], vec![], out, exp, true)
            }
            NAct::NetDisconnectSendFails(a) => {
                s.b.disconnects -= 1;
                let pid = PeerId(s.pids[&a]);
                let mut reported = false;
                let (_, out) = self.net_call(s, a, |n, cb| {
                    let mut f = FailCb { inner: cb, fails: 1 };
                    reported = n.disconnect(&mut f, pid, b"net bye").is_err();
                    vec![]
                });
                // the reference closes too; its close datagram is the one that was lost
                let (_, exp) = self.ref_call(s, a, |e, cb, _| Ep::disconnect(e, cb, b"net bye"));
                s.refs.remove(&a);
                s.pids.remove(&a);
                if !exp.is_empty() && !reported {
                    return Some(("send-error-not-reported".into(), format!("disconnect of address {} did not report the failed send", a)));
                }
                let exp_after_loss: Vec<(Addr, Vec<u8>)> = exp.into_iter().skip(1).collect();
                self.expect_same("disconnect-send-fails", vec![], vec![], out, exp_after_loss, true)
            }
            NAct::NetTick | NAct::NetTickSendFails(_) => {
                let faulty: Option<Addr> = if let NAct::NetTickSendFails(a) = act { Some(a) } else { None };
                if faulty.is_some() {
                    s.b.tick_faults -= 1;
                }
                let mut reported = 0usize;
                let (_, out) = self.net_call(s, 0, |n, cb| {
                    match faulty {
                        None => {
                            let errs: Vec<Infallible> = n.tick(cb).collect();
                            assert!(errs.is_empty());
                        }
                        Some(a) => {
                            let mut f = FailAddrCb { inner: cb, addr: a, fails: 1 };
                            reported = n.tick(&mut f).count();
                        }
                    }
                    vec![]
                });
                let mut exp = Vec::new();
                let mut ref_errors = 0usize;
                let addrs: Vec<Addr> = s.refs.keys().cloned().collect();
                for a in addrs {
                    let (_, o) = self.ref_call(s, a, |e, cb, _| {
                        if faulty == Some(a) {
                            cb.fail_sends = 1;
                        }
                        Ep::tick(e, cb);
                        if faulty == Some(a) && cb.fail_sends == 0 {
                            ref_errors += 1;
                        }
                    });
                    exp.extend(o);
                }
                if faulty.is_some() && reported != ref_errors {
                    return Some(("send-error-not-reported:tick".into(), format!("a tick whose environment refused {} datagram(s) reported {} error(s)", ref_errors, reported)));
                }
                // per-address order must be preserved; order across addresses is free
                let per = |v: &Vec<(Addr, Vec<u8>)>| {
                    let mut m: BTreeMap<Addr, Vec<Vec<u8>>> = BTreeMap::new();
                    for (a, d) in v {
                        m.entry(*a).or_default().push(d.clone());
                    }
                    m
                };
                if per(&out) != per(&exp) {
                    return Some((
                        "datagrams-differ:tick".into(),
                        format!("Net tick sent {:?}, references sent {:?}", out.len(), exp.len()),
                    ));
                }
                self.stats.compared_steps.fetch_add(1, Ordering::Relaxed);
                None
            }
        }
    }

    pub fn check_state(&self, s: &NSt) -> bool {
        if s.bad {
            return false;
        }
        let k = s.key64();
        if k % 2048 == 0 || s.depth <= 1 {
            let mut v = self.samples.lock().unwrap();
            if v.len() < 300 {
                v.push(NSample {
                    key: k,
                    path: path_vec(&s.path),
                });
            }
        }
        true
    }

    pub fn replay(&self, path: &[NAct]) -> Option<NSt> {
        let mut s = self.init.clone();
        for &a in path {
            let mut acts = Vec::new();
            self.actions(&s, &mut acts);
            if !acts.contains(&a) {
                return None;
            }
            s = self.apply(&s, a)?;
        }
        Some(s)
    }
}

#[derive(Clone, Debug, Eq, PartialEq)]
pub enum OwnedEvent {
    Chunk(u32, bool, Vec<u8>),
    Connless(Addr, Option<u32>, Vec<u8>),
    Connect(u32),
    Ready(u32),
    Disconnect(u32, Vec<u8>),
}

impl Model for NetM {
    type State = NSt;
    type Action = NAct;

    fn init_states(&self) -> Vec<NSt> {
        vec![self.init.clone()]
    }

    fn actions(&self, s: &NSt, out: &mut Vec<NAct>) {
        if s.bad {
            return;
        }
        let n = self.cfg.addrs;
        let over = s.to_net.len() > self.cfg.cap;
        for i in 0..s.to_net.len() {
            if i > 0 && s.to_net[i] == s.to_net[i - 1] {
                continue;
            }
            let (a, d) = &s.to_net[i];
            let may_connect = !s.refs.contains_key(a) && self.cfg.accepting && (d == CONNECT_TOKEN || d == CONNECT_PLAIN);
            if may_connect {
                for p in [Policy::Accept, Policy::Reject, Policy::Ignore] {
                    out.push(NAct::ToNet(i as u8, p));
                }
                if self.cfg.defer {
                    out.push(NAct::ToNet(i as u8, Policy::Defer));
                }
                if self.cfg.send_faults {
                    out.push(NAct::ToNet(i as u8, Policy::RejectSendFails));
                }
            } else {
                out.push(NAct::ToNet(i as u8, Policy::Accept));
            }
            if s.b.drops > 0 && !over {
                out.push(NAct::DropToNet(i as u8));
            }
        }
        if over {
            return;
        }
        for a in 0..n {
            let au = a as usize;
            let rv = &s.rviews[au];
            for i in 0..s.to_remote[au].len() {
                if i > 0 && s.to_remote[au][i] == s.to_remote[au][i - 1] {
                    continue;
                }
                out.push(NAct::ToRemote(a, i as u8));
            }
            if self.cfg.accepting && rv.state == 0 && s.rserial[au] == 0 && !s.refs.contains_key(&a) {
                out.push(NAct::RemoteConnect(a));
            }
            if rv.state == 3 {
                if s.b.remote_sends > 0 {
                    out.push(NAct::RemoteSend(a));
                }
                if s.b.disconnects > 0 {
                    out.push(NAct::RemoteDisconnect(a));
                }
            }
            if let Some(t) = Ep::needs_tick(&*s.remotes[au]) {
                if t <= s.now {
                    out.push(NAct::RemoteTick(a));
                }
            }
            if s.b.garbage > 0 {
                for k in 0..GARBAGE.len() as u8 {
                    out.push(NAct::Garbage(a, k));
                }
            }
            if let Some(p) = s.view.peers.iter().find(|p| p.addr == a) {
                if p.conn.state == 0 && s.pending.contains_key(&a) {
                    for pol in [Policy::Accept, Policy::Reject, Policy::Ignore] {
                        out.push(NAct::NetDecide(a, pol));
                    }
                    if self.cfg.send_faults {
                        out.push(NAct::NetDecide(a, Policy::RejectSendFails));
                    }
                }
                if p.conn.state == 3 {
                    if s.b.net_sends > 0 {
                        out.push(NAct::NetSend(a, true));
                        out.push(NAct::NetSend(a, false));
                    }
                    let o = p.conn.online.as_ref().unwrap();
                    if o.packet.num_chunks != 0 || o.request_resend {
                        out.push(NAct::NetFlush(a));
                    }
                }
                if s.b.disconnects > 0 && p.conn.state != 0 {
                    if self.cfg.send_faults {
                        out.push(NAct::NetDisconnectSendFails(a));
                    }
                    out.push(NAct::NetDisconnect(a));
                }
            } else if s.b.net_connects > 0 && s.rviews[au].state == 0 {
                out.push(NAct::NetConnect(a));
            }
        }
        if s.b.wraps > 0 && s.view.peers.len() >= 2 && s.view.next_peer_id != s.view.peers.iter().map(|p| p.pid).min().unwrap() {
            out.push(NAct::CounterWrap);
        }
        if let Some(t) = s.net.needs_tick().to_opt() {
            if t.as_usecs_since_epoch() <= s.now {
                out.push(NAct::NetTick);
                if s.b.tick_faults > 0 {
                    for p in &s.view.peers {
                        out.push(NAct::NetTickSendFails(p.addr));
                    }
                }
            }
        }
        if s.b.advances > 0 {
            let any = s
                .rviews
                .iter()
                .map(|v| &**v)
                .chain(s.view.peers.iter().map(|p| &p.conn))
                .any(|v| v.send.map(|t| t > 0).unwrap_or(false) || v.online.as_ref().map(|o| o.resend_queue.iter().any(|r| r.next_send.map(|t| t > 0).unwrap_or(false))).unwrap_or(false));
            if any {
                out.push(NAct::Advance);
            }
        }
    }

    fn next_state(&self, last: &NSt, act: NAct) -> Option<NSt> {
        self.apply(last, act)
    }

    fn properties(&self) -> Vec<Property<Self>> {
        vec![Property::always("holds", |m: &NetM, s: &NSt| m.check_state(s))]
    }
}

pub fn _unused(_: Value) {}
