//! Explicit-state model of two real connection endpoints joined by a lossy,
//! duplicating, reordering network. A transition performs ONE real call on a
//! copy of the real object; states are deduplicated on the complete
//! `verif_view` of both endpoints + the in-flight datagrams + monitors +
//! budgets. Used by C01, C02, C03 and C04.

use crate::ep::Cb;
use crate::ep::Ep;
use crate::ep::Ev;
use crate::ep::WPacket;
use crate::wire;
use libtw2_net::verif::ConnView;
use serde_json::json;
use serde_json::Value;
use stateright::Model;
use stateright::Property;
use std::hash::Hash;
use std::hash::Hasher;
use std::marker::PhantomData;
use std::sync::atomic::AtomicU64;
use std::sync::atomic::Ordering;
use std::sync::Arc;
use std::sync::Mutex;
use vp_core::catch;
use vp_core::panic_sig;
use vp_core::Run;

pub const CLIENT: usize = 0;
pub const SERVER: usize = 1;
pub const RANDOM: [[u8; 4]; 2] = [[0xc1, 0x1e, 0x27, 0x99], [0x12, 0x34, 0x56, 0x78]];

const CONNECT6_TOKEN: &[u8] = b"\x10\x00\x00\x01TKEN\xff\xff\xff\xff";
const CONNECT6_PLAIN: &[u8] = b"\x10\x00\x00\x01";

#[derive(Clone, Copy, Debug, Eq, Hash, PartialEq)]
pub enum Variant {
    /// 0.6 with DDNet token extension
    V6T,
    /// 0.6, a middlebox strips the token extension from the Connect
    V6N,
    V7,
}

impl Variant {
    pub fn name(self) -> &'static str {
        match self {
            Variant::V6T => "v6t",
            Variant::V6N => "v6n",
            Variant::V7 => "v7",
        }
    }
}

#[derive(Clone, Debug)]
pub struct Cfg {
    pub variant: Variant,
    pub vsends: [u8; 2],
    pub nsends: [u8; 2],
    /// Payload sizes offered to `send`.
    pub sizes: Vec<usize>,
    pub drops: u8,
    pub dups: u8,
    pub advances: u8,
    /// Extra fixed clock steps in microseconds (share the advance budget).
    pub steps: Vec<u64>,
    pub cap: usize,
    pub disconnects: u8,
    /// how many times the environment may refuse a datagram (the send callback returns an error to
    /// the call that tried to send it; the datagram is lost)
    pub faults: u8,
    /// Loss-free scripted prefix: number of vital chunks exchanged each way
    /// before exploration starts (sequence wrap-around window).
    pub prefix_chunks: u16,
    /// Leave this many vital chunks per side unacknowledged at the start.
    pub prefix_unacked: u8,
    /// A duplicate of each side's first vital datagram of the prefix is still in flight when
    /// exploration starts (delayed across `prefix_chunks` sequence numbers - allowed below 1024).
    pub prefix_stale: bool,
    pub c01: bool,
    pub c02: bool,
    pub c03: bool,
    pub c04: bool,
}

impl Cfg {
    pub fn base(variant: Variant) -> Cfg {
        Cfg {
            variant,
            vsends: [0, 0],
            nsends: [0, 0],
            sizes: vec![3],
            drops: 0,
            dups: 0,
            advances: 2,
            steps: vec![],
            cap: 3,
            disconnects: 0,
            faults: 0,
            prefix_chunks: 0,
            prefix_unacked: 0,
            prefix_stale: false,
            c01: true,
            c02: false,
            c03: false,
            c04: true,
        }
    }
    pub fn to_json(&self) -> Value {
        json!({
            "variant": self.variant.name(), "vsends": self.vsends, "nsends": self.nsends, "sizes": self.sizes,
            "drops": self.drops, "dups": self.dups, "advances": self.advances, "steps": self.steps, "cap": self.cap,
            "disconnects": self.disconnects, "faults": self.faults, "prefix_chunks": self.prefix_chunks, "prefix_unacked": self.prefix_unacked, "prefix_stale": self.prefix_stale,
            "c01": self.c01, "c02": self.c02, "c03": self.c03, "c04": self.c04,
        })
    }
    pub fn from_json(v: &Value) -> Option<Cfg> {
        let a2 = |k: &str| -> Option<[u8; 2]> {
            let a = v[k].as_array()?;
            Some([a[0].as_u64()? as u8, a[1].as_u64()? as u8])
        };
        Some(Cfg {
            variant: match v["variant"].as_str()? {
                "v6t" => Variant::V6T,
                "v6n" => Variant::V6N,
                "v7" => Variant::V7,
                _ => return None,
            },
            vsends: a2("vsends")?,
            nsends: a2("nsends")?,
            sizes: v["sizes"].as_array()?.iter().map(|x| x.as_u64().unwrap() as usize).collect(),
            drops: v["drops"].as_u64()? as u8,
            dups: v["dups"].as_u64()? as u8,
            advances: v["advances"].as_u64()? as u8,
            steps: v["steps"].as_array()?.iter().map(|x| x.as_u64().unwrap()).collect(),
            cap: v["cap"].as_u64()? as usize,
            disconnects: v["disconnects"].as_u64()? as u8,
            faults: v.get("faults").and_then(|x| x.as_u64()).unwrap_or(0) as u8,
            prefix_chunks: v["prefix_chunks"].as_u64()? as u16,
            prefix_unacked: v["prefix_unacked"].as_u64()? as u8,
            prefix_stale: v["prefix_stale"].as_bool().unwrap_or(false),
            c01: v["c01"].as_bool()?,
            c02: v["c02"].as_bool()?,
            c03: v["c03"].as_bool()?,
            c04: v["c04"].as_bool()?,
        })
    }
    pub fn label(&self) -> String {
        format!(
            "{} v{}/{} n{}/{} sizes{:?} drops{} dups{} adv{} steps{:?} cap{} disc{} prefix{}+{}{}{}",
            self.variant.name(),
            self.vsends[0],
            self.vsends[1],
            self.nsends[0],
            self.nsends[1],
            self.sizes,
            self.drops,
            self.dups,
            self.advances,
            self.steps,
            self.cap,
            self.disconnects,
            self.prefix_chunks,
            self.prefix_unacked,
            if self.prefix_stale { "+stale" } else { "" },
            if self.faults > 0 { format!(" sendfaults{}", self.faults) } else { String::new() }
        )
    }
}

#[derive(Clone, Copy, Debug, Eq, Hash, PartialEq)]
pub enum Act {
    Connect,
    Send { side: u8, vital: bool, sz: u8 },
    Flush(u8),
    Tick(u8),
    Advance,
    Step(u8),
    Deliver { to: u8, idx: u8 },
    Drop { to: u8, idx: u8 },
    Dup { to: u8, idx: u8 },
    Disconnect(u8),
    /// the environment will refuse the next datagram this side hands to the send callback
    FailNext(u8),
}

impl Act {
    pub fn render(&self) -> String {
        let s = |x: u8| if x == 0 { "C" } else { "S" };
        match *self {
            Act::Connect => "C.connect".into(),
            Act::Send { side, vital, sz } => format!(
                "{}.send({},size#{})",
                s(side),
                if vital { "vital" } else { "nonvital" },
                sz
            ),
            Act::Flush(x) => format!("{}.flush", s(x)),
            Act::Tick(x) => format!("{}.tick", s(x)),
            Act::Advance => "clock->next_deadline".into(),
            Act::Step(i) => format!("clock+step#{}", i),
            Act::Deliver { to, idx } => format!("deliver[{}]->{}", idx, s(to)),
            Act::Drop { to, idx } => format!("drop[{}]->{}", idx, s(to)),
            Act::Dup { to, idx } => format!("dup[{}]->{}", idx, s(to)),
            Act::Disconnect(x) => format!("{}.disconnect", s(x)),
            Act::FailNext(x) => format!("{}.next-send-fails", s(x)),
        }
    }
}

impl Act {
    /// Inverse of `render` (for replay files).
    pub fn parse(s: &str) -> Option<Act> {
        let side = |c: &str| -> Option<u8> {
            match c {
                "C" => Some(0),
                "S" => Some(1),
                _ => None,
            }
        };
        if s == "C.connect" {
            return Some(Act::Connect);
        }
        if s == "clock->next_deadline" {
            return Some(Act::Advance);
        }
        if let Some(r) = s.strip_prefix("clock+step#") {
            return Some(Act::Step(r.parse().ok()?));
        }
        for (kw, mk) in [("deliver[", 0), ("drop[", 1), ("dup[", 2)] {
            if let Some(r) = s.strip_prefix(kw) {
                let (idx, to) = r.split_once("]->")?;
                let (idx, to) = (idx.parse().ok()?, side(to)?);
                return Some(match mk {
                    0 => Act::Deliver { to, idx },
                    1 => Act::Drop { to, idx },
                    _ => Act::Dup { to, idx },
                });
            }
        }
        let (who, what) = s.split_once('.')?;
        let who = side(who)?;
        match what {
            "flush" => Some(Act::Flush(who)),
            "tick" => Some(Act::Tick(who)),
            "disconnect" => Some(Act::Disconnect(who)),
            "next-send-fails" => Some(Act::FailNext(who)),
            _ => {
                let r = what.strip_prefix("send(")?.strip_suffix(')')?;
                let (kind, sz) = r.split_once(",size#")?;
                Some(Act::Send { side: who, vital: kind == "vital", sz: sz.parse().ok()? })
            }
        }
    }
}

pub struct PathNode {
    pub parent: Option<Arc<PathNode>>,
    pub act: Act,
}

pub fn path_vec(p: &Option<Arc<PathNode>>) -> Vec<Act> {
    let mut v = Vec::new();
    let mut cur = p.as_ref();
    while let Some(n) = cur {
        v.push(n.act);
        cur = n.parent.as_ref();
    }
    v.reverse();
    v
}

pub fn path_json(p: &[Act]) -> Value {
    json!(p.iter().map(|a| a.render()).collect::<Vec<_>>())
}

#[derive(Clone, Debug, Eq, Hash, PartialEq)]
pub struct Dgram {
    pub bytes: Vec<u8>,
    /// Emitted by the accepting side after it had processed the connect.
    pub answered: bool,
}

#[derive(Clone, Debug, Default, Eq, Hash, PartialEq)]
pub struct Budgets {
    pub vsends: [u8; 2],
    pub nsends: [u8; 2],
    pub drops: u8,
    pub dups: u8,
    pub advances: u8,
    pub disconnects: u8,
    pub faults: u8,
    /// the next datagram of side i will be refused
    pub fail_next: [bool; 2],
}

#[derive(Clone, Debug, Default, Eq, Hash, PartialEq)]
pub struct Mon {
    /// size class per submitted vital chunk, index = serial
    pub sub_v: [Vec<u8>; 2],
    /// number of vital chunks of side i handed to the peer's application
    pub del_v: [u16; 2],
    pub sub_n: [Vec<u8>; 2],
    /// number of non-vital chunks of side i that already left on the wire
    pub wire_n: [u16; 2],
    pub ready: u8,
    pub connect_called: bool,
    pub api_disconnected: [bool; 2],
    /// number of non-vital chunks delivered (only for statistics/vacuity)
    pub del_n: [u16; 2],
    /// number of random draws each endpoint has made (successive draws differ)
    pub draws: [u8; 2],
}

pub struct St<E: Ep> {
    pub ep: [Arc<E>; 2],
    pub view: [Arc<ConnView>; 2],
    pub now: u64,
    /// net[i] = datagrams in flight toward side i, kept sorted
    pub net: [Vec<Arc<Dgram>>; 2],
    pub b: Budgets,
    pub mon: Mon,
    pub path: Option<Arc<PathNode>>,
    pub depth: u16,
    pub bad: bool,
}

impl<E: Ep> Clone for St<E> {
    fn clone(&self) -> Self {
        St {
            ep: self.ep.clone(),
            view: self.view.clone(),
            now: self.now,
            net: self.net.clone(),
            b: self.b.clone(),
            mon: self.mon.clone(),
            path: self.path.clone(),
            depth: self.depth,
            bad: self.bad,
        }
    }
}

impl<E: Ep> Hash for St<E> {
    fn hash<H: Hasher>(&self, h: &mut H) {
        self.view[0].hash(h);
        self.view[1].hash(h);
        self.net.hash(h);
        self.b.hash(h);
        self.mon.hash(h);
        self.bad.hash(h);
    }
}

impl<E: Ep> PartialEq for St<E> {
    fn eq(&self, o: &Self) -> bool {
        self.view == o.view
            && self.net == o.net
            && self.b == o.b
            && self.mon == o.mon
            && self.bad == o.bad
    }
}
impl<E: Ep> Eq for St<E> {}

impl<E: Ep> std::fmt::Debug for St<E> {
    fn fmt(&self, f: &mut std::fmt::Formatter) -> std::fmt::Result {
        write!(f, "St(depth {})", self.depth)
    }
}

impl<E: Ep> St<E> {
    pub fn key64(&self) -> u64 {
        let mut h = std::collections::hash_map::DefaultHasher::new();
        self.hash(&mut h);
        h.finish()
    }
    pub fn summary(&self) -> Value {
        json!({
            "client": self.view[0].state_name,
            "server": self.view[1].state_name,
            "in_flight_to_client": self.net[0].len(),
            "in_flight_to_server": self.net[1].len(),
            "vital_submitted": [self.mon.sub_v[0].len(), self.mon.sub_v[1].len()],
            "vital_delivered": self.mon.del_v,
            "ready": self.mon.ready,
        })
    }
}

/// The payload of chunk `serial` of `side`: every byte depends on
/// (side, vital, serial, position) so that any alteration, swap or
/// cross-talk is visible.
pub fn payload(side: usize, vital: bool, serial: usize, size: usize) -> Vec<u8> {
    let tag = 0xa0 | ((side as u8) << 1) | vital as u8;
    (0..size)
        .map(|i| match i {
            0 => tag,
            1 => serial as u8,
            2 => (serial >> 8) as u8 ^ 0x5a,
            _ => (i as u8)
                .wrapping_mul(31)
                .wrapping_add(serial as u8)
                .wrapping_add(tag),
        })
        .collect()
}

#[derive(Default)]
pub struct Stats {
    pub transitions: AtomicU64,
    pub max_rank: AtomicU64,
    pub rank_states: AtomicU64,
    pub c03_feeds: AtomicU64,
    pub c03_states: AtomicU64,
    pub c03_skipped_carrying_token: AtomicU64,
    pub c04_datagrams: AtomicU64,
    pub c04_compressed: AtomicU64,
    pub c04_chunks: AtomicU64,
    pub chunks_delivered: [AtomicU64; 2],
    pub nonvital_delivered: [AtomicU64; 2],
    pub ready_events: AtomicU64,
    pub resend_flag_chunks: AtomicU64,
    pub both_online_states: AtomicU64,
    pub max_depth: AtomicU64,
    pub refused_datagrams: AtomicU64,
}

pub struct Sample {
    pub key: u64,
    pub path: Vec<Act>,
}

pub struct NetModel<E: Ep> {
    pub cfg: Cfg,
    pub run: Arc<Run>,
    pub stats: Arc<Stats>,
    pub samples: Arc<Mutex<Vec<Sample>>>,
    pub init: St<E>,
    /// serial offset of the scripted prefix
    pub base: u16,
    pub foreign: Arc<crate::foreign::Cache>,
    _p: PhantomData<E>,
}

pub const MAX_RANK_ROUNDS: u64 = 24;
pub const MAX_RANK_TIME_US: u64 = 12_000_000;

impl<E: Ep> NetModel<E> {
    pub fn new(cfg: Cfg, run: Arc<Run>) -> NetModel<E> {
        assert_eq!(E::V7, cfg.variant == Variant::V7);
        let ep0 = E::new();
        let ep1 = E::new();
        let now = 1_000_000_000u64;
        let init = St {
            view: [Arc::new(ep0.view(now)), Arc::new(ep1.view(now))],
            ep: [Arc::new(ep0), Arc::new(ep1)],
            now,
            net: [Vec::new(), Vec::new()],
            b: Budgets::default(),
            mon: Mon::default(),
            path: None,
            depth: 0,
            bad: false,
        };
        let mut m = NetModel {
            cfg,
            run,
            stats: Arc::new(Stats::default()),
            samples: Arc::new(Mutex::new(Vec::new())),
            init,
            base: 0,
            foreign: Arc::new(crate::foreign::Cache::default()),
            _p: PhantomData,
        };
        m.init = m.scripted_start();
        m
    }

    fn full_budgets(&self) -> Budgets {
        Budgets {
            vsends: self.cfg.vsends,
            nsends: self.cfg.nsends,
            drops: self.cfg.drops,
            dups: self.cfg.dups,
            advances: self.cfg.advances,
            disconnects: self.cfg.disconnects,
            faults: self.cfg.faults,
            fail_next: [false, false],
        }
    }

    /// Build the initial state: fresh pair, or the state after a loss-free
    /// scripted prefix (handshake + `prefix_chunks` vital chunks each way).
    fn scripted_start(&mut self) -> St<E> {
        let mut s = self.init.clone();
        s.b = self.full_budgets();
        if self.cfg.prefix_chunks == 0 && self.cfg.prefix_unacked == 0 {
            return s;
        }
        // Unlimited budgets during the script.
        s.b = Budgets {
            vsends: [255, 255],
            nsends: [255, 255],
            drops: 0,
            dups: 0,
            advances: 255,
            disconnects: 0,
            faults: 0,
            fail_next: [false, false],
        };
        let saved = (self.cfg.c01, self.cfg.c02, self.cfg.c03, self.cfg.c04);
        let drain = |m: &Self, s: &mut St<E>| {
            // deliver everything until the network is empty
            let mut guard = 0;
            while !s.net[0].is_empty() || !s.net[1].is_empty() {
                let to = if !s.net[1].is_empty() { 1 } else { 0 };
                *s = m.apply(s, Act::Deliver { to, idx: 0 }).expect("script");
                guard += 1;
                assert!(guard < 100, "scripted prefix does not settle");
            }
        };
        s = self.apply(&s, Act::Connect).expect("script");
        drain(self, &mut s);
        // The acceptor of every variant goes online only on the first chunk
        // packet: one non-vital chunk from the client.
        let n = self.cfg.prefix_chunks.max(1);
        let mut stale: [Vec<Arc<Dgram>>; 2] = [Vec::new(), Vec::new()];
        for i in 0..n {
            for side in [0u8, 1u8] {
                s.b.vsends = [255, 255];
                s = self
                    .apply(
                        &s,
                        Act::Send {
                            side,
                            vital: true,
                            sz: 0,
                        },
                    )
                    .expect("script");
                s = self.apply(&s, Act::Flush(side)).expect("script");
                if i == 0 && self.cfg.prefix_stale {
                    // the network duplicates this datagram and holds the copy back
                    let to = 1 - side as usize;
                    stale[to] = s.net[to].clone();
                }
                drain(self, &mut s);
            }
        }
        // Exchange acks: advance to the keep-alive deadline and tick both.
        for _ in 0..2 {
            s.b.advances = 255;
            s = self.apply(&s, Act::Advance).expect("script");
            for side in [0u8, 1u8] {
                if self.tick_enabled(&s, side as usize) {
                    s = self.apply(&s, Act::Tick(side)).expect("script");
                }
            }
            drain(self, &mut s);
        }
        assert!(!s.bad, "scripted prefix violated a monitor");
        for side in 0..2 {
            let o = s.view[side].online.as_ref().expect("online after prefix");
            assert!(o.resend_queue.is_empty(), "prefix left unacked chunks");
            assert_eq!(s.mon.del_v[side] as usize, s.mon.sub_v[side].len());
        }
        self.base = n;
        for to in 0..2 {
            for d in std::mem::take(&mut stale[to]) {
                let q = &mut s.net[to];
                let pos = q.binary_search_by(|x| x.as_ref().cmp_key(&d)).unwrap_or_else(|p| p);
                q.insert(pos, d);
            }
        }
        // Unacked chunks at the start: queued and flushed, datagrams lost.
        s.mon.sub_v = [Vec::new(), Vec::new()];
        s.mon.del_v = [0, 0];
        for _ in 0..self.cfg.prefix_unacked {
            for side in [0u8, 1u8] {
                s.b.vsends = [255, 255];
                s = self
                    .apply(
                        &s,
                        Act::Send {
                            side,
                            vital: true,
                            sz: 0,
                        },
                    )
                    .expect("script");
                s = self.apply(&s, Act::Flush(side)).expect("script");
            }
            s.net = [Vec::new(), Vec::new()];
        }
        let _ = saved;
        s.b = self.full_budgets();
        s.path = None;
        s.depth = 0;
        s
    }

    fn size_of(&self, sz: u8) -> usize {
        self.cfg.sizes[sz as usize]
    }

    fn seq_of(&self, serial: usize) -> u16 {
        ((self.base as usize + serial + 1) % 1024) as u16
    }

    pub fn tick_enabled(&self, s: &St<E>, side: usize) -> bool {
        match s.ep[side].needs_tick() {
            Some(t) => t <= s.now,
            None => false,
        }
    }

    fn next_deadline(&self, s: &St<E>) -> Option<u64> {
        let mut best: Option<u64> = None;
        for v in &s.view {
            let mut c = |t: Option<u64>| {
                if let Some(t) = t {
                    if t > 0 {
                        best = Some(best.map(|b| b.min(t)).unwrap_or(t));
                    }
                }
            };
            c(v.send);
            if let Some(o) = &v.online {
                for r in &o.resend_queue {
                    c(r.next_send);
                }
            }
        }
        best
    }

    fn violation(&self, s: &St<E>, act: Option<Act>, sig: &str, detail: &str) -> bool {
        let mut p = path_vec(&s.path);
        if let Some(a) = act {
            p.push(a);
        }
        self.run.violation(
            &format!("{}:{}", self.cfg.variant.name(), sig),
            detail,
            json!({
                "model": "two-endpoints",
                "cfg": self.cfg.label(),
                "cfg_json": self.cfg.to_json(),
                "variant": self.cfg.variant.name(),
                "actions": path_json(&p),
                "state_before_last_action": s.summary(),
            }),
        )
    }

    /// Perform one action on a copy of the state. Returns None if the branch
    /// is pruned (a listed known finding was hit).
    pub fn apply(&self, last: &St<E>, act: Act) -> Option<St<E>> {
        self.stats.transitions.fetch_add(1, Ordering::Relaxed);
        let mut s = last.clone();
        s.depth += 1;
        s.path = Some(Arc::new(PathNode {
            parent: last.path.clone(),
            act,
        }));
        let mut fail: Option<(String, String)> = None;
        match act {
            Act::Connect => {
                s.mon.connect_called = true;
                self.call(&mut s, last, act, CLIENT, &mut fail, |e, cb, _, _| {
                    e.connect(cb)
                });
            }
            Act::Send { side, vital, sz } => {
                let side = side as usize;
                let size = self.size_of(sz);
                let data;
                if vital {
                    s.b.vsends[side] -= 1;
                    data = payload(side, true, s.mon.sub_v[side].len(), size);
                    s.mon.sub_v[side].push(sz);
                } else {
                    s.b.nsends[side] -= 1;
                    data = payload(side, false, s.mon.sub_n[side].len(), size);
                    s.mon.sub_n[side].push(sz);
                }
                let mut ok = true;
                self.call(&mut s, last, act, side, &mut fail, |e, cb, _, _| {
                    ok = e.send(cb, &data, vital)
                });
                if !ok && fail.is_none() {
                    fail = Some((
                        format!("send-refused:size{}", size),
                        format!("send of {} bytes (vital={}) returned TooLongData", size, vital),
                    ));
                }
            }
            Act::Flush(side) => {
                self.call(&mut s, last, act, side as usize, &mut fail, |e, cb, _, _| {
                    e.flush(cb)
                });
            }
            Act::Tick(side) => {
                self.call(&mut s, last, act, side as usize, &mut fail, |e, cb, _, _| {
                    e.tick(cb)
                });
            }
            Act::Disconnect(side) => {
                s.b.disconnects -= 1;
                s.mon.api_disconnected[side as usize] = true;
                self.call(&mut s, last, act, side as usize, &mut fail, |e, cb, _, _| {
                    e.disconnect(cb, b"bye")
                });
            }
            Act::FailNext(side) => {
                s.b.faults -= 1;
                s.b.fail_next[side as usize] = true;
            }
            Act::Advance => {
                s.b.advances -= 1;
                let d = self.next_deadline(&s).expect("advance without deadline");
                s.now += d;
                s.view = [
                    Arc::new(s.ep[0].view(s.now)),
                    Arc::new(s.ep[1].view(s.now)),
                ];
            }
            Act::Step(i) => {
                s.b.advances -= 1;
                s.now += self.cfg.steps[i as usize];
                s.view = [
                    Arc::new(s.ep[0].view(s.now)),
                    Arc::new(s.ep[1].view(s.now)),
                ];
            }
            Act::Drop { to, idx } => {
                s.b.drops -= 1;
                s.net[to as usize].remove(idx as usize);
            }
            Act::Dup { to, idx } => {
                s.b.dups -= 1;
                let d = s.net[to as usize][idx as usize].clone();
                s.net[to as usize].insert(idx as usize, d);
            }
            Act::Deliver { to, idx } => {
                let to = to as usize;
                let d = s.net[to].remove(idx as usize);
                let mut evs = Vec::new();
                self.call(&mut s, last, act, to, &mut fail, |e, cb, ev, warn| {
                    e.feed(cb, &d.bytes, ev, warn);
                    evs = std::mem::take(ev);
                });
                if fail.is_none() {
                    fail = self.on_events(&mut s, to, &d, &evs);
                }
            }
        }
        if let Some((sig, detail)) = fail {
            let known = self.violation(last, Some(act), &sig, &detail);
            if known {
                return None;
            }
            s.bad = true;
        }
        Some(s)
    }

    /// One real call on a copy of endpoint `side`; emitted datagrams go
    /// through the wire monitor and onto the network.
    fn call(
        &self,
        s: &mut St<E>,
        last: &St<E>,
        act: Act,
        side: usize,
        fail: &mut Option<(String, String)>,
        f: impl FnOnce(&mut E, &mut Cb, &mut Vec<Ev>, &mut Vec<String>),
    ) {
        let mut e = s.ep[side].vclone();
        let mut cb = Cb::with_draws(s.now, RANDOM[side], s.mon.draws[side]);
        if s.b.fail_next[side] {
            cb.fail_sends = 1;
        }
        let mut ev = Vec::new();
        let mut warn = Vec::new();
        let lp = last.path.clone();
        let label = self.cfg.label();
        let guard = self.run.watchdog.watch(Arc::new(move || {
            let mut p = path_vec(&lp);
            p.push(act);
            json!({"model": "two-endpoints", "cfg": label, "actions": path_json(&p)})
        }));
        let r = catch(|| f(&mut e, &mut cb, &mut ev, &mut warn));
        drop(guard);
        if let Err(p) = r {
            *fail = Some((panic_sig(&p), format!("panic: {}", p)));
            return;
        }
        s.mon.draws[side] = s.mon.draws[side].wrapping_add(cb.random_calls as u8);
        if s.b.fail_next[side] && cb.fail_sends == 0 {
            // the refusal has happened: the call got the error, the datagram is lost
            s.b.fail_next[side] = false;
            self.stats.refused_datagrams.fetch_add(1, Ordering::Relaxed);
        }
        let view = e.view(s.now);
        let answered = side == SERVER
            && (view.state == E::ONLINE || view.state_name == "Pending")
            && !matches!(act, Act::Disconnect(_));
        for mut bytes in std::mem::take(&mut cb.out) {
            if self.cfg.c04 && fail.is_none() {
                if let Err(f) = self.wire_monitor(s, side, &view, &bytes) {
                    *fail = Some(f);
                }
            }
            if self.cfg.variant == Variant::V6N && side == CLIENT && bytes == CONNECT6_TOKEN {
                bytes = CONNECT6_PLAIN.to_vec();
            }
            let d = Arc::new(Dgram { bytes, answered });
            let q = &mut s.net[1 - side];
            let pos = q.binary_search_by(|x| x.as_ref().cmp_key(&d)).unwrap_or_else(|p| p);
            q.insert(pos, d);
        }
        s.ep[side] = Arc::new(e);
        s.view[side] = Arc::new(view);
    }

    /// C01 monitors on the events of one feed.
    fn on_events(
        &self,
        s: &mut St<E>,
        to: usize,
        d: &Dgram,
        evs: &[Ev],
    ) -> Option<(String, String)> {
        let from = 1 - to;
        for ev in evs {
            match ev {
                Ev::Chunk(data, true) => {
                    let k = s.mon.del_v[from] as usize;
                    if k >= s.mon.sub_v[from].len() {
                        return Some((
                            "c01:vital-not-submitted".into(),
                            format!(
                                "vital chunk {} delivered although only {} were submitted",
                                vp_core::hex_short(data),
                                k
                            ),
                        ));
                    }
                    let exp = payload(from, true, k, self.size_of(s.mon.sub_v[from][k]));
                    if *data != exp {
                        return Some((
                            "c01:vital-out-of-order-or-altered".into(),
                            format!(
                                "vital delivery #{}: got {} expected {}",
                                k,
                                vp_core::hex_short(data),
                                vp_core::hex_short(&exp)
                            ),
                        ));
                    }
                    s.mon.del_v[from] += 1;
                    self.stats.chunks_delivered[from].fetch_add(1, Ordering::Relaxed);
                }
                Ev::Chunk(data, false) => {
                    let ok = data.len() >= 2 && {
                        let serial = data[1] as usize;
                        serial < s.mon.sub_n[from].len()
                            && *data
                                == payload(
                                    from,
                                    false,
                                    serial,
                                    self.size_of(s.mon.sub_n[from][serial]),
                                )
                    };
                    if !ok {
                        return Some((
                            "c01:nonvital-never-sent".into(),
                            format!("non-vital chunk {} was never sent", vp_core::hex_short(data)),
                        ));
                    }
                    s.mon.del_n[from] = s.mon.del_n[from].saturating_add(1).min(1);
                    self.stats.nonvital_delivered[from].fetch_add(1, Ordering::Relaxed);
                }
                Ev::Ready => {
                    self.stats.ready_events.fetch_add(1, Ordering::Relaxed);
                    if to != CLIENT {
                        return Some((
                            "c01:ready-on-accepting-side".into(),
                            "Ready reported on the accepting side".into(),
                        ));
                    }
                    if s.mon.ready >= 1 {
                        return Some(("c01:ready-twice".into(), "Ready reported twice".into()));
                    }
                    if !d.answered {
                        return Some((
                            "c01:ready-before-answer".into(),
                            "Ready reported while feeding a datagram that the accepting side \
                             emitted before it had processed the connect request"
                                .into(),
                        ));
                    }
                    s.mon.ready += 1;
                }
                Ev::Connless(data) => {
                    return Some((
                        "c01:connless-never-sent".into(),
                        format!("connless {} was never sent", vp_core::hex_short(data)),
                    ));
                }
                Ev::Disconnect(_) => {
                    if !s.mon.api_disconnected[from] {
                        return Some((
                            "c01:disconnect-never-sent".into(),
                            "Disconnect event although the peer never disconnected".into(),
                        ));
                    }
                }
            }
        }
        None
    }

    /// C04 monitor: every datagram handed to the send callback.
    fn wire_monitor(
        &self,
        s: &mut St<E>,
        side: usize,
        view_after: &ConnView,
        bytes: &[u8],
    ) -> Result<(), (String, String)> {
        self.stats.c04_datagrams.fetch_add(1, Ordering::Relaxed);
        if bytes.len() > 1400 {
            return Err((
                "c04:datagram-too-long".into(),
                format!("datagram of {} bytes", bytes.len()),
            ));
        }
        // True token mode as known to the sender.
        let token_mode = if E::V7 {
            None
        } else {
            // A 0.6 Connect carries the token extension iff the client
            // offers it; everything else follows the sender's state.
            match view_after.own_token {
                Some(t) => Some(t.is_some()),
                None => None,
            }
        };
        let r = E::read(bytes, token_mode);
        let p = match r.packet {
            Ok(p) => p,
            Err(e) => {
                return Err((
                    format!("c04:own-datagram-unreadable:{}", e),
                    format!("{} -> {}", vp_core::hex_short(bytes), e),
                ))
            }
        };
        if !r.warnings.is_empty() {
            return Err((
                format!("c04:own-datagram-warns:{}", r.warnings[0]),
                format!("{} -> warnings {:?}", vp_core::hex_short(bytes), r.warnings),
            ));
        }
        if let WPacket::Chunks {
            num_chunks, chunks, ..
        } = p
        {
            let compressed = if E::V7 {
                bytes[0] & wire::F7_COMPRESSION != 0
            } else {
                bytes[0] & wire::F6_COMPRESSION != 0
            };
            if compressed {
                self.stats.c04_compressed.fetch_add(1, Ordering::Relaxed);
            }
            if chunks.len() != num_chunks as usize {
                return Err((
                    "c04:chunk-count-mismatch".into(),
                    format!("header says {} chunks, {} present", num_chunks, chunks.len()),
                ));
            }
            for c in &chunks {
                self.stats.c04_chunks.fetch_add(1, Ordering::Relaxed);
                match c.vital {
                    Some((seq, resend)) => {
                        if resend {
                            self.stats.resend_flag_chunks.fetch_add(1, Ordering::Relaxed);
                        }
                        let n = s.mon.sub_v[side].len();
                        let serial = (0..n).find(|&k| self.seq_of(k) == seq);
                        let ok = serial
                            .map(|k| {
                                c.data == payload(side, true, k, self.size_of(s.mon.sub_v[side][k]))
                            })
                            .unwrap_or(false);
                        if !ok {
                            return Err((
                                "c04:vital-chunk-differs-from-queued".into(),
                                format!(
                                    "vital chunk seq {} data {} is not the queued payload",
                                    seq,
                                    vp_core::hex_short(&c.data)
                                ),
                            ));
                        }
                    }
                    None => {
                        let k = s.mon.wire_n[side] as usize;
                        let ok = k < s.mon.sub_n[side].len()
                            && c.data
                                == payload(side, false, k, self.size_of(s.mon.sub_n[side][k]));
                        if !ok {
                            return Err((
                                "c04:nonvital-chunk-differs-from-queued".into(),
                                format!(
                                    "non-vital chunk {} is not the next queued non-vital payload (#{})",
                                    vp_core::hex_short(&c.data),
                                    k
                                ),
                            ));
                        }
                        s.mon.wire_n[side] += 1;
                    }
                }
            }
        }
        Ok(())
    }

    // ------------------------------------------------------------------
    // C02: ranking by the fair suffix, deadline invariant
    // ------------------------------------------------------------------

    fn goal(&self, s: &St<E>) -> bool {
        if s.mon.connect_called && s.mon.ready == 0 {
            return false;
        }
        for side in 0..2 {
            if s.mon.del_v[side] as usize != s.mon.sub_v[side].len() {
                return false;
            }
            if let Some(o) = &s.view[side].online {
                if !o.resend_queue.is_empty()
                    || o.packet.num_chunks != 0
                    || o.packet_nonvital.num_chunks != 0
                    || o.request_resend
                {
                    return false;
                }
            }
        }
        true
    }

    fn deadline_invariant(&self, s: &St<E>) -> Option<(String, String)> {
        for side in 0..2 {
            let v = &s.view[side];
            let mut owes = false;
            if let Some(o) = &v.online {
                owes = !o.resend_queue.is_empty() || o.packet.num_chunks != 0 || o.request_resend;
            }
            // handshake states in which this endpoint owns a retransmission
            if E::V7 {
                owes |= matches!(v.state_name, "Token" | "Connecting" | "Pending");
            } else {
                owes |= matches!(v.state_name, "Connecting" | "Pending");
            }
            if owes && s.ep[side].needs_tick().is_none() {
                return Some((
                    format!("c02:no-deadline:{}", v.state_name),
                    format!(
                        "side {} has work pending in state {} but needs_tick() is inactive",
                        side, v.state_name
                    ),
                ));
            }
        }
        None
    }

    /// Run the fair suffix from `s`; returns the number of rounds to the goal.
    fn rank(&self, s0: &St<E>) -> Result<u64, (String, String)> {
        let mut s = s0.clone();
        // the suffix is not budgeted
        s.b = Budgets {
            vsends: [0, 0],
            nsends: [0, 0],
            drops: 0,
            dups: 0,
            advances: 255,
            disconnects: 0,
            faults: 0,
            fail_next: [false, false],
        };
        let t0 = s.now;
        for round in 0..=MAX_RANK_ROUNDS {
            if self.goal(&s) {
                return Ok(round);
            }
            if s.now - t0 > MAX_RANK_TIME_US {
                break;
            }
            let mut progressed = false;
            for side in 0..2u8 {
                if self.tick_enabled(&s, side as usize) {
                    s = self.apply(&s, Act::Tick(side)).ok_or_else(|| {
                        ("known".to_string(), "known finding in suffix".to_string())
                    })?;
                    progressed = true;
                }
            }
            // deliver everything that is in flight now, once
            let n = [s.net[0].len(), s.net[1].len()];
            let mut snapshot: Vec<(u8, Arc<Dgram>)> = Vec::new();
            for i in 0..n[0].max(n[1]) {
                for to in [1usize, 0usize] {
                    if i < n[to] {
                        snapshot.push((to as u8, s.net[to][i].clone()));
                    }
                }
            }
            for (to, d) in snapshot {
                let idx = s.net[to as usize]
                    .iter()
                    .position(|x| Arc::ptr_eq(x, &d) || **x == *d)
                    .expect("in flight");
                s = self
                    .apply(&s, Act::Deliver { to, idx: idx as u8 })
                    .ok_or_else(|| ("known".to_string(), "known finding in suffix".to_string()))?;
                progressed = true;
            }
            if s.bad {
                // a monitor fired inside the suffix; already reported
                return Err(("reported".into(), String::new()));
            }
            if !progressed {
                match self.next_deadline(&s) {
                    Some(_) => {
                        s = self.apply(&s, Act::Advance).expect("advance");
                    }
                    None => {
                        return Err((
                            "c02:stall".into(),
                            format!(
                                "fair suffix stalls after {} rounds: nothing in flight, no deadline, goal not reached ({})",
                                round,
                                s.summary()
                            ),
                        ));
                    }
                }
            }
        }
        Err((
            "c02:no-progress".into(),
            format!(
                "goal not reached within {} fair rounds / {} s ({})",
                MAX_RANK_ROUNDS,
                MAX_RANK_TIME_US / 1_000_000,
                s.summary()
            ),
        ))
    }

    /// Per-unique-state checks (run inside the `always` condition).
    pub fn check_state(&self, s: &St<E>) -> bool {
        if s.bad {
            return false;
        }
        self.stats
            .max_depth
            .fetch_max(s.depth as u64, Ordering::Relaxed);
        if s.view[0].state == E::ONLINE && s.view[1].state == E::ONLINE {
            self.stats.both_online_states.fetch_add(1, Ordering::Relaxed);
        }
        // sample for replay validation
        {
            let k = s.key64();
            if k % 4096 == 0 || s.depth <= 1 {
                let mut v = self.samples.lock().unwrap();
                if v.len() < 400 {
                    v.push(Sample {
                        key: k,
                        path: path_vec(&s.path),
                    });
                }
            }
        }
        if self.cfg.c02 {
            if let Some((sig, detail)) = self.deadline_invariant(s) {
                if !self.violation(s, None, &sig, &detail) {
                    return false;
                }
            }
            let disconnected = s
                .view
                .iter()
                .any(|v| v.state_name == "Disconnected");
            if !disconnected {
                self.stats.rank_states.fetch_add(1, Ordering::Relaxed);
                match self.rank(s) {
                    Ok(r) => {
                        self.stats.max_rank.fetch_max(r, Ordering::Relaxed);
                    }
                    Err((sig, detail)) => {
                        if sig == "reported" {
                            return false;
                        }
                        if sig != "known" && !self.violation(s, None, &sig, &detail) {
                            return false;
                        }
                    }
                }
            }
        }
        if self.cfg.c03 {
            if let Some((sig, detail, extra)) = crate::foreign::sweep(self, s) {
                let mut p = path_vec(&s.path);
                let _ = &mut p;
                let known = self.run.violation(
                    &format!("{}:{}", self.cfg.variant.name(), sig),
                    &detail,
                    json!({
                        "model": "two-endpoints",
                        "cfg": self.cfg.label(),
                        "cfg_json": self.cfg.to_json(),
                        "variant": self.cfg.variant.name(),
                        "actions": path_json(&p),
                        "then_feed": extra,
                    }),
                );
                if !known {
                    return false;
                }
            }
        }
        true
    }

    /// Re-execute an action path from the initial state.
    pub fn replay(&self, path: &[Act]) -> Option<St<E>> {
        let mut s = self.init.clone();
        for &a in path {
            let mut acts = Vec::new();
            self.actions(&s, &mut acts);
            if !acts.contains(&a) {
                return None;
            }
            s = self.apply(&s, a)?;
        }
        Some(s)
    }
}

impl Dgram {
    fn cmp_key(&self, o: &Dgram) -> std::cmp::Ordering {
        (&self.bytes, self.answered).cmp(&(&o.bytes, o.answered))
    }
}

impl<E: Ep> Model for NetModel<E> {
    type State = St<E>;
    type Action = Act;

    fn init_states(&self) -> Vec<St<E>> {
        vec![self.init.clone()]
    }

    fn actions(&self, s: &St<E>, out: &mut Vec<Act>) {
        if s.bad {
            return;
        }
        // back-pressure: a direction above capacity must deliver first
        let over: Vec<usize> = (0..2).filter(|&d| s.net[d].len() > self.cfg.cap).collect();
        let net_actions = |out: &mut Vec<Act>, to: usize, only_deliver: bool| {
            let q = &s.net[to];
            for i in 0..q.len() {
                if i > 0 && q[i] == q[i - 1] {
                    continue; // identical datagrams are interchangeable
                }
                out.push(Act::Deliver {
                    to: to as u8,
                    idx: i as u8,
                });
                if only_deliver {
                    continue;
                }
                if s.b.drops > 0 {
                    out.push(Act::Drop {
                        to: to as u8,
                        idx: i as u8,
                    });
                }
                if s.b.dups > 0 && q.len() < self.cfg.cap {
                    out.push(Act::Dup {
                        to: to as u8,
                        idx: i as u8,
                    });
                }
            }
        };
        if !over.is_empty() {
            for d in over {
                net_actions(out, d, true);
            }
            return;
        }
        if s.view[0].state == 0 && !s.mon.connect_called {
            out.push(Act::Connect);
        }
        for side in 0..2usize {
            let v = &s.view[side];
            if v.state == E::ONLINE {
                for sz in 0..self.cfg.sizes.len() as u8 {
                    if s.b.vsends[side] > 0 {
                        out.push(Act::Send {
                            side: side as u8,
                            vital: true,
                            sz,
                        });
                    }
                    if s.b.nsends[side] > 0 {
                        out.push(Act::Send {
                            side: side as u8,
                            vital: false,
                            sz,
                        });
                    }
                }
                let o = v.online.as_ref().unwrap();
                if o.packet.num_chunks != 0 || o.request_resend {
                    out.push(Act::Flush(side as u8));
                }
            }
            if self.tick_enabled(s, side) {
                out.push(Act::Tick(side as u8));
            }
            if s.b.disconnects > 0 && v.state != 0 && v.state_name != "Disconnected" {
                out.push(Act::Disconnect(side as u8));
            }
            if s.b.faults > 0 && !s.b.fail_next[side] && v.state_name != "Disconnected" && (v.state != 0 || side == CLIENT) {
                out.push(Act::FailNext(side as u8));
            }
        }
        if s.b.advances > 0 {
            if self.next_deadline(s).is_some() {
                out.push(Act::Advance);
            }
            for i in 0..self.cfg.steps.len() {
                out.push(Act::Step(i as u8));
            }
        }
        for to in 0..2 {
            net_actions(out, to, false);
        }
    }

    fn next_state(&self, last: &St<E>, act: Act) -> Option<St<E>> {
        self.apply(last, act)
    }

    fn properties(&self) -> Vec<Property<Self>> {
        vec![Property::always("holds", |m: &NetModel<E>, s: &St<E>| {
            m.check_state(s)
        })]
    }
}
