//! Independent packet builder / classifier, written from doc/packet.md and
//! doc/packet7.md, using the bundled *C++ reference* Huffman implementation for
//! compressed payloads. It does not call the library's packet reader or
//! writer, so it can act as an oracle about what is on the wire.

use libtw2_huffman_reference::Huffman as RefHuffman;
use std::sync::OnceLock;

pub const F6_COMPRESSION: u8 = 0x80;
pub const F6_RESEND: u8 = 0x40;
pub const F6_CONNLESS: u8 = 0x20;
pub const F6_CONTROL: u8 = 0x10;

pub const F7_CONNLESS: u8 = 0x20;
pub const F7_COMPRESSION: u8 = 0x10;
pub const F7_RESEND: u8 = 0x08;
pub const F7_CONTROL: u8 = 0x04;

pub fn frequencies() -> &'static [u32; 256] {
    static F: OnceLock<[u32; 256]> = OnceLock::new();
    F.get_or_init(|| {
        let text = std::fs::read_to_string("/repo/huffman/data/frequencies")
            .expect("huffman/data/frequencies");
        let v: Vec<u32> = text.lines().map(|l| l.trim().parse().unwrap()).collect();
        assert_eq!(v.len(), 256);
        let mut a = [0u32; 256];
        a.copy_from_slice(&v);
        a
    })
}

struct SyncRef(RefHuffman);
// The reference object is an immutable table after construction.
unsafe impl Sync for SyncRef {}
unsafe impl Send for SyncRef {}

fn reference() -> &'static RefHuffman {
    static R: OnceLock<SyncRef> = OnceLock::new();
    &R.get_or_init(|| SyncRef(RefHuffman::from_frequencies_array(frequencies())))
        .0
}

pub fn ref_compress(data: &[u8]) -> Option<Vec<u8>> {
    let mut buf: Vec<u8> = Vec::with_capacity(data.len() * 4 + 16);
    reference().compress(data, &mut buf).ok()?;
    Some(buf)
}

pub fn ref_decompress(data: &[u8], cap: usize) -> Option<Vec<u8>> {
    let mut buf: Vec<u8> = Vec::with_capacity(cap);
    reference().decompress(data, &mut buf).ok()?;
    Some(buf)
}

/// What the classifier can say about a datagram.
#[derive(Clone, Debug, Eq, PartialEq)]
pub struct Info {
    pub connless: bool,
    pub control: bool,
    pub compressed: bool,
    /// First byte of the (decompressed) payload of a control packet.
    pub control_msg: Option<u8>,
    /// The token the datagram carries, if its position is well-defined.
    pub token: Option<[u8; 4]>,
    /// Decompressed payload (0.6: still including the trailing token).
    pub payload: Vec<u8>,
    pub ack: u16,
    pub num_chunks: u8,
}

/// 0.6 / DDNet. `with_token` = the connection uses the token extension, so
/// the token is the last four bytes of the (decompressed) payload.
pub fn info6(d: &[u8], with_token: bool) -> Option<Info> {
    if d.len() < 3 || d.len() > 1400 {
        return None;
    }
    let flags = d[0] & 0xf0;
    let ack = ((d[0] & 0x03) as u16) << 8 | d[1] as u16;
    let connless = flags & F6_CONNLESS != 0;
    if connless {
        return Some(Info {
            connless: true,
            control: false,
            compressed: false,
            control_msg: None,
            token: None,
            payload: d.get(6..).unwrap_or(&[]).to_vec(),
            ack,
            num_chunks: d[2],
        });
    }
    let compressed = flags & F6_COMPRESSION != 0;
    let payload = if compressed {
        ref_decompress(&d[3..], 4096)?
    } else {
        d[3..].to_vec()
    };
    let control = flags & F6_CONTROL != 0;
    let token = if with_token && payload.len() >= 4 {
        let t = &payload[payload.len() - 4..];
        Some([t[0], t[1], t[2], t[3]])
    } else {
        None
    };
    Some(Info {
        connless,
        control,
        compressed,
        control_msg: if control { payload.first().copied() } else { None },
        token,
        payload,
        ack,
        num_chunks: d[2],
    })
}

pub fn info7(d: &[u8]) -> Option<Info> {
    if d.len() < 7 || d.len() > 1400 {
        return None;
    }
    let flags = d[0] & 0x3c;
    let ack = ((d[0] & 0x03) as u16) << 8 | d[1] as u16;
    let connless = flags & F7_CONNLESS != 0;
    if connless {
        if d.len() < 9 {
            return None;
        }
        return Some(Info {
            connless: true,
            control: false,
            compressed: false,
            control_msg: None,
            token: Some([d[1], d[2], d[3], d[4]]),
            payload: d[9..].to_vec(),
            ack: 0,
            num_chunks: 0,
        });
    }
    let compressed = flags & F7_COMPRESSION != 0;
    let payload = if compressed {
        ref_decompress(&d[7..], 4096)?
    } else {
        d[7..].to_vec()
    };
    let control = flags & F7_CONTROL != 0;
    Some(Info {
        connless,
        control,
        compressed,
        control_msg: if control { payload.first().copied() } else { None },
        token: Some([d[3], d[4], d[5], d[6]]),
        payload,
        ack,
        num_chunks: d[2],
    })
}

/// Build a 0.6 connection-oriented datagram. `payload` excludes the token.
pub fn build6(
    flags: u8,
    ack: u16,
    num_chunks: u8,
    payload: &[u8],
    token: Option<[u8; 4]>,
    compress: bool,
) -> Option<Vec<u8>> {
    let mut body = payload.to_vec();
    if let Some(t) = token {
        body.extend_from_slice(&t);
    }
    let mut flags = flags & 0xf0;
    let body = if compress {
        flags |= F6_COMPRESSION;
        ref_compress(&body)?
    } else {
        body
    };
    let mut d = vec![flags | ((ack >> 8) & 3) as u8, ack as u8, num_chunks];
    d.extend_from_slice(&body);
    if d.len() > 1400 {
        return None;
    }
    Some(d)
}

pub fn build7(
    flags: u8,
    ack: u16,
    num_chunks: u8,
    payload: &[u8],
    token: [u8; 4],
    compress: bool,
) -> Option<Vec<u8>> {
    let mut flags = flags & 0x3c;
    let body = if compress {
        flags |= F7_COMPRESSION;
        ref_compress(payload)?
    } else {
        payload.to_vec()
    };
    let mut d = vec![flags | ((ack >> 8) & 3) as u8, ack as u8, num_chunks];
    d.extend_from_slice(&token);
    d.extend_from_slice(&body);
    if d.len() > 1400 {
        return None;
    }
    Some(d)
}

pub fn build7_connless(token: [u8; 4], response_token: [u8; 4], payload: &[u8]) -> Vec<u8> {
    let mut d = vec![F7_CONNLESS | 1];
    d.extend_from_slice(&token);
    d.extend_from_slice(&response_token);
    d.extend_from_slice(payload);
    d
}

/// Chunk header per the documentation. `v7` selects the 0.7 size split.
pub fn chunk(v7: bool, data: &[u8], vital: Option<(u16, bool)>) -> Vec<u8> {
    let size = data.len() as u16;
    let mut flags = 0u8;
    if let Some((_, resend)) = vital {
        flags |= 0x40; // vital
        if resend {
            flags |= 0x80;
        }
    }
    let mut out = Vec::new();
    if v7 {
        out.push(flags | ((size >> 6) & 0x3f) as u8);
        let mut b1 = (size & 0x3f) as u8;
        if let Some((seq, _)) = vital {
            b1 |= ((seq >> 2) & 0xc0) as u8;
            out.push(b1);
            out.push(seq as u8);
        } else {
            out.push(b1);
        }
    } else {
        out.push(flags | ((size >> 4) & 0x3f) as u8);
        let mut b1 = (size & 0x0f) as u8;
        if let Some((seq, _)) = vital {
            b1 |= ((seq >> 2) & 0xf0) as u8;
            out.push(b1);
            out.push(seq as u8);
        } else {
            out.push(b1);
        }
    }
    out.extend_from_slice(data);
    out
}
