//! C03: the foreign-datagram alphabet and the per-state sweep.
//!
//! For an endpoint that has fixed token T, every datagram of D(state) is fed
//! to a copy of the endpoint; it must yield no event, no outgoing datagram and
//! leave the complete view (timers included) unchanged. Datagrams are built and
//! classified by `wire` (independent of the library's reader/writer).

use crate::ep::Cb;
use crate::ep::Ep;
use crate::model::NetModel;
use crate::model::St;
use crate::model::RANDOM;
use crate::wire;
use serde_json::json;
use serde_json::Value;
use std::collections::HashMap;
use std::sync::atomic::Ordering;
use std::sync::Arc;
use std::sync::Mutex;

#[derive(Clone, Debug)]
pub struct Foreign {
    pub bytes: Vec<u8>,
    pub what: String,
}

#[derive(Default)]
pub struct Cache {
    map: Mutex<HashMap<(bool, [u8; 4], Option<[u8; 4]>, u16, u16, bool), Arc<Vec<Foreign>>>>,
}

#[derive(Clone, Copy, Debug, Eq, PartialEq)]
pub enum Carries {
    Token([u8; 4]),
    NoToken,
    /// connectionless 0.6 datagram (not connection-oriented) or a compressed
    /// datagram the reference decompressor rejects: not judged
    Unknown,
}

pub fn classify(v7: bool, d: &[u8]) -> (Carries, Option<wire::Info>) {
    if v7 {
        if d.len() < 7 {
            return (Carries::NoToken, None);
        }
        match wire::info7(d) {
            Some(i) => (Carries::Token(i.token.unwrap()), Some(i)),
            None => {
                // header token is readable even if the payload is not
                if d[0] & wire::F7_CONNLESS != 0 {
                    (Carries::NoToken, None)
                } else {
                    (Carries::Token([d[3], d[4], d[5], d[6]]), None)
                }
            }
        }
    } else {
        if d.len() < 3 || d.len() > 1400 {
            return (Carries::NoToken, None);
        }
        if d[0] & wire::F6_CONNLESS != 0 {
            return (Carries::Unknown, None);
        }
        match wire::info6(d, true) {
            Some(i) => match i.token {
                Some(t) => (Carries::Token(t), Some(i)),
                None => (Carries::NoToken, Some(i)),
            },
            None => (Carries::Unknown, None),
        }
    }
}

fn tokens_small(t: [u8; 4], peer: Option<[u8; 4]>) -> Vec<(Option<[u8; 4]>, String)> {
    let mut v: Vec<(Option<[u8; 4]>, String)> = vec![
        (None, "absent".into()),
        (Some([0xff; 4]), "ffffffff".into()),
        (Some([0; 4]), "00000000".into()),
        (Some([t[0] ^ 1, t[1], t[2], t[3]]), "flip-bit0-byte0".into()),
        (Some([t[0], t[1], t[2], t[3] ^ 0x80]), "flip-bit7-byte3".into()),
        (Some([t[1], t[2], t[3], t[0]]), "rot8".into()),
        (Some([t[3], t[2], t[1], t[0]]), "reversed".into()),
    ];
    if let Some(p) = peer {
        v.push((Some(p), "peer-token".into()));
    }
    v.retain(|(x, _)| *x != Some(t));
    v
}

fn tokens_flips(t: [u8; 4]) -> Vec<(Option<[u8; 4]>, String)> {
    let mut v = Vec::new();
    for k in 0..32 {
        let mut x = t;
        x[k / 8] ^= 1 << (k % 8);
        v.push((Some(x), format!("flip-bit{}", k)));
    }
    for r in 1..4 {
        let x = [t[r % 4], t[(r + 1) % 4], t[(r + 2) % 4], t[(r + 3) % 4]];
        if x != t {
            v.push((Some(x), format!("rot{}", 8 * r)));
        }
    }
    v
}

/// (flags-without-compression, num_chunks, payload, description, compressible)
fn bodies(v7: bool, expect_seq: u16, resp: [u8; 4]) -> Vec<(u8, u8, Vec<u8>, String, bool)> {
    let (fctl, fres) = if v7 {
        (wire::F7_CONTROL, wire::F7_RESEND)
    } else {
        (wire::F6_CONTROL, wire::F6_RESEND)
    };
    let mut b: Vec<(u8, u8, Vec<u8>, String, bool)> = Vec::new();
    b.push((fctl, 0, vec![0], "keepalive".into(), false));
    if v7 {
        let mut c = vec![1];
        c.extend_from_slice(&resp);
        b.push((fctl, 0, c, "connect".into(), false));
        b.push((fctl, 0, vec![2], "accept".into(), false));
        let mut t = vec![5];
        t.extend_from_slice(&resp);
        b.push((fctl, 0, t.clone(), "token".into(), false));
        t.extend_from_slice(&[0u8; 512]);
        b.push((fctl, 0, t, "token-request-padded".into(), false));
    } else {
        b.push((fctl, 0, vec![1], "connect".into(), false));
        b.push((fctl, 0, b"\x01TKEN".to_vec(), "connect-tken".into(), false));
        b.push((fctl, 0, vec![2], "connectaccept".into(), false));
        b.push((fctl, 0, b"\x02TKEN".to_vec(), "connectaccept-tken".into(), false));
        b.push((fctl, 0, vec![3], "accept".into(), false));
    }
    for (reason, name) in [
        (Vec::new(), "close-empty"),
        (b"x".to_vec(), "close-x"),
        (vec![b'a'; 127], "close-127"),
    ] {
        let mut c = vec![4];
        c.extend_from_slice(&reason);
        c.push(0);
        b.push((fctl, 0, c, name.into(), false));
    }
    // chunk packets whose first vital chunk is exactly the one the endpoint
    // waits for, so that they WOULD be accepted with the right token
    let next = (expect_seq + 1) % 1024;
    let c1 = wire::chunk(v7, b"zzzzzzzz", Some((expect_seq, false)));
    let c2 = wire::chunk(v7, b"yyyy", Some((next, false)));
    let cn = wire::chunk(v7, b"nonvital", None);
    for (flags, fname) in [(0u8, ""), (fres, "+resend-request")] {
        b.push((flags, 0, Vec::new(), format!("chunks0{}", fname), false));
        b.push((flags, 1, c1.clone(), format!("chunks1-vital{}", fname), true));
        b.push((flags, 1, cn.clone(), format!("chunks1-nonvital{}", fname), true));
        let mut two = c1.clone();
        two.extend_from_slice(&c2);
        b.push((flags, 2, two, format!("chunks2-vital{}", fname), true));
    }
    b
}

fn build(
    v7: bool,
    flags: u8,
    ack: u16,
    n: u8,
    payload: &[u8],
    token: Option<[u8; 4]>,
    compress: bool,
) -> Option<Vec<u8>> {
    if v7 {
        wire::build7(flags, ack, n, payload, token.unwrap_or([0xff; 4]), compress)
    } else {
        wire::build6(flags, ack, n, payload, token, compress)
    }
}

pub fn alphabet(
    v7: bool,
    t: [u8; 4],
    peer: Option<[u8; 4]>,
    expect_seq: u16,
    ack_field: u16,
    thorough: bool,
) -> Vec<Foreign> {
    let mut out = Vec::new();
    let resp = peer.unwrap_or([0x77, 0x66, 0x55, 0x44]);
    let bodies = bodies(v7, expect_seq, resp);
    let small = tokens_small(t, peer);
    let flips = tokens_flips(t);
    for (bi, (flags, n, payload, name, compressible)) in bodies.iter().enumerate() {
        let all_flips = thorough || matches!(name.as_str(), "keepalive" | "chunks1-vital" | "close-x" | "accept" | "connectaccept-tken");
        let toks: Vec<&(Option<[u8; 4]>, String)> = if all_flips {
            small.iter().chain(flips.iter()).collect()
        } else {
            small.iter().collect()
        };
        let _ = bi;
        for (tok, tname) in toks {
            if v7 && tok.is_none() {
                continue; // 0.7 has no token-less form
            }
            for compress in [false, true] {
                if compress && !*compressible {
                    continue;
                }
                if let Some(bytes) = build(v7, *flags, ack_field, *n, payload, *tok, compress) {
                    out.push(Foreign {
                        bytes,
                        what: format!(
                            "{} token={}{}",
                            name,
                            tname,
                            if compress { " compressed" } else { "" }
                        ),
                    });
                }
            }
        }
    }
    if v7 {
        for (tok, tname) in small.iter().chain(flips.iter()) {
            if let Some(tok) = tok {
                out.push(Foreign {
                    bytes: wire::build7_connless(*tok, resp, b"hello"),
                    what: format!("connless token={}", tname),
                });
            }
        }
    }
    // every truncation and single-byte substitution of valid, correctly
    // tokened datagrams (classified afterwards; those still carrying T are
    // skipped)
    let fctl = if v7 { wire::F7_CONTROL } else { wire::F6_CONTROL };
    let c1 = wire::chunk(v7, b"zzzzzzzz", Some((expect_seq, false)));
    let valid: Vec<(Vec<u8>, &str)> = vec![
        (
            build(v7, fctl, ack_field, 0, &[0], Some(t), false).unwrap(),
            "keepalive",
        ),
        (
            build(v7, fctl, ack_field, 0, b"\x04x\0", Some(t), false).unwrap(),
            "close-x",
        ),
        (
            build(v7, 0, ack_field, 1, &c1, Some(t), false).unwrap(),
            "chunks1-vital",
        ),
        (
            build(v7, 0, ack_field, 1, &c1, Some(t), true).unwrap(),
            "chunks1-vital compressed",
        ),
    ];
    for (v, name) in valid {
        for cut in 0..v.len() {
            out.push(Foreign {
                bytes: v[..cut].to_vec(),
                what: format!("valid {} truncated to {}", name, cut),
            });
        }
        for pos in 0..v.len() {
            for val in [0x00u8, 0x01, 0x7f, 0x80, 0xff] {
                if v[pos] == val {
                    continue;
                }
                let mut m = v.clone();
                m[pos] = val;
                out.push(Foreign {
                    bytes: m,
                    what: format!("valid {} byte {} := {:02x}", name, pos, val),
                });
            }
        }
    }
    out
}

/// Sweep both endpoints of state `s`. Returns the first violation.
pub fn sweep<E: Ep>(m: &NetModel<E>, s: &St<E>) -> Option<(String, String, Value)> {
    let thorough = m.run.tier == vp_core::Tier::Thorough;
    for side in 0..2 {
        let v = &s.view[side];
        let t = match v.own_token {
            Some(Some(t)) => t,
            _ => continue,
        };
        let (expect_seq, ack_field) = match &v.online {
            Some(o) => ((o.ack + 1) % 1024, o.sequence),
            None => (1, 0),
        };
        let key = (E::V7, t, v.their_token, expect_seq, ack_field, thorough);
        let alpha = {
            let mut c = m.foreign.map.lock().unwrap();
            c.entry(key)
                .or_insert_with(|| {
                    Arc::new(alphabet(
                        E::V7,
                        t,
                        v.their_token,
                        expect_seq,
                        ack_field,
                        thorough,
                    ))
                })
                .clone()
        };
        m.stats.c03_states.fetch_add(1, Ordering::Relaxed);
        for f in alpha.iter() {
            let (carries, info) = classify(E::V7, &f.bytes);
            match carries {
                Carries::Token(x) if x == t => {
                    m.stats
                        .c03_skipped_carrying_token
                        .fetch_add(1, Ordering::Relaxed);
                    continue;
                }
                Carries::Unknown => continue,
                _ => {}
            }
            // the one documented exception: unauthenticated token request
            // while a 0.7 acceptor still waits for the connect
            if E::V7
                && v.state_name == "PendingConnect"
                && carries == Carries::Token([0xff; 4])
                && f.bytes.len() > 7
                && f.bytes[0] & wire::F7_CONTROL != 0
                && info.as_ref().and_then(|i| i.control_msg) == Some(5)
            {
                continue;
            }
            m.stats.c03_feeds.fetch_add(1, Ordering::Relaxed);
            let mut e = s.ep[side].vclone();
            let mut cb = Cb::with_draws(s.now, RANDOM[side], s.mon.draws[side]);
            let mut ev = Vec::new();
            let mut warn = Vec::new();
            let r = vp_core::catch(|| e.feed(&mut cb, &f.bytes, &mut ev, &mut warn));
            let extra = json!({
                "side": side,
                "state": v.state_name,
                "agreed_token": vp_core::hex(&t),
                "datagram": vp_core::hex(&f.bytes),
                "what": f.what,
            });
            if let Err(p) = r {
                return Some((
                    format!("c03:{}", vp_core::panic_sig(&p)),
                    format!("feeding a foreign datagram panics: {}", p),
                    extra,
                ));
            }
            let body_kind = f.what.split(' ').next().unwrap_or("").to_string();
            if !ev.is_empty() {
                return Some((
                    format!("c03:event:{}:{}", v.state_name, body_kind),
                    format!(
                        "datagram without the agreed token yields events {:?} ({})",
                        ev, f.what
                    ),
                    extra,
                ));
            }
            if !cb.out.is_empty() {
                return Some((
                    format!("c03:reply:{}:{}", v.state_name, body_kind),
                    format!(
                        "datagram without the agreed token triggers {} outgoing datagram(s) ({})",
                        cb.out.len(),
                        f.what
                    ),
                    extra,
                ));
            }
            if cb.random_calls != 0 {
                return Some((
                    format!("c03:random:{}:{}", v.state_name, body_kind),
                    format!("datagram without the agreed token consumes randomness ({})", f.what),
                    extra,
                ));
            }
            let after = e.view(s.now);
            if after != **v {
                return Some((
                    format!("c03:state-change:{}:{}", v.state_name, body_kind),
                    format!(
                        "datagram without the agreed token changes the endpoint state ({}): {:?} -> {:?}",
                        f.what, v, after
                    ),
                    extra,
                ));
            }
        }
    }
    None
}
