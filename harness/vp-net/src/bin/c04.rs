//! C04: everything the connection layer sends is well-formed; bad sends are
//! refused. (a) runs of 2100 vital chunks (the 10-bit sequence numbers come round twice) acknowledged every 1 / 50 / 500 chunks; wire monitor on every datagram of the two-endpoint model;
//! (b) exhaustive API sequences up to a depth on one online endpoint;
//! (c) many small chunks without flush.

use std::sync::Arc;
use vp_core::rayon::prelude::*;
use vp_core::serde_json::json;
use vp_core::serde_json::Value;
use vp_core::LocalClasses;
use vp_core::Run;
use vp_core::Tier;
use vp_net::ep::Ep;
use vp_net::ep::Ev;
use vp_net::ep::WPacket;
use vp_net::model::Cfg;
use vp_net::model::Variant;
use vp_net::model::RANDOM;
use vp_net::pair::Pair;
use vp_net::wire;

#[derive(Clone, Debug, PartialEq)]
enum Op {
    Send(usize, bool),
    /// the same calls while the environment refuses the first datagram they try to send
    /// (send error reported to the caller, datagram lost)
    SendRefused(usize, bool),
    FlushRefused,
    TickRefused(u64),
    Flush,
    Tick(u64),
    PeerRequestsResend,
    PeerAcksAll,
    Connless(usize),
    Disconnect(usize),
}

fn ops() -> Vec<Op> {
    let mut v = Vec::new();
    let lens = [
        0usize, 1, 15, 16, 63, 64, 1000, 1022, 1023, 1024, 1383, 1384, 1385, 1386, 1387, 1388, 1389, 1390, 1391,
        2048, 4096,
    ];
    for &l in &lens {
        v.push(Op::Send(l, true));
        v.push(Op::Send(l, false));
    }
    for &l in &[1usize, 1000, 1023] {
        v.push(Op::SendRefused(l, true));
        v.push(Op::SendRefused(l, false));
    }
    v.push(Op::FlushRefused);
    v.push(Op::TickRefused(1_000_000));
    v.push(Op::Flush);
    v.push(Op::Tick(500_000));
    v.push(Op::Tick(1_000_000));
    v.push(Op::PeerRequestsResend);
    v.push(Op::PeerAcksAll);
    for l in [0usize, 1, 1390, 1391, 2000] {
        v.push(Op::Connless(l));
    }
    for l in [0usize, 1, 127] {
        v.push(Op::Disconnect(l));
    }
    v
}

fn op_json(o: &Op) -> Value {
    json!(format!("{:?}", o))
}

/// Tracks what was queued and checks every emitted datagram.
struct Wire {
    vital: Vec<Vec<u8>>,    // index = serial, sequence = serial+1+base
    nonvital: Vec<Vec<u8>>, // FIFO
    nv_cursor: usize,
    connless: Vec<Vec<u8>>,
    base: usize,
    datagrams: usize,
    compressed: usize,
}

fn check_datagram<E: Ep>(w: &mut Wire, token_mode: Option<bool>, d: &[u8]) -> Result<(), (String, String)> {
    w.datagrams += 1;
    if d.len() > 1400 {
        return Err(("datagram-too-long".into(), format!("{} bytes", d.len())));
    }
    let r = E::read(d, token_mode);
    let p = r
        .packet
        .map_err(|e| (format!("own-datagram-unreadable:{}", e), vp_core::hex_short(d)))?;
    if !r.warnings.is_empty() {
        return Err((
            format!("own-datagram-warns:{}", r.warnings[0]),
            format!("{} warnings {:?}", vp_core::hex_short(d), r.warnings),
        ));
    }
    match p {
        WPacket::Connless(data) => {
            if !w.connless.iter().any(|c| *c == data) {
                return Err(("connless-differs".into(), vp_core::hex_short(&data)));
            }
        }
        WPacket::Control { .. } => {}
        WPacket::Chunks { num_chunks, chunks, .. } => {
            let comp = if E::V7 { d[0] & wire::F7_COMPRESSION != 0 } else { d[0] & wire::F6_COMPRESSION != 0 };
            if comp {
                w.compressed += 1;
            }
            if chunks.len() != num_chunks as usize {
                return Err((
                    "chunk-count-mismatch".into(),
                    format!("header says {} chunks, {} present", num_chunks, chunks.len()),
                ));
            }
            for c in chunks {
                match c.vital {
                    Some((seq, _)) => {
                        let serial = (seq as usize + 1024 - 1 - w.base % 1024) % 1024;
                        // (sequence numbers come round after 1024 chunks: any queued chunk with that number)
                        if !(0..).map(|k| serial + 1024 * k).take_while(|i| *i < w.vital.len()).any(|i| w.vital[i] == c.data) {
                            return Err((
                                "vital-chunk-differs-from-queued".into(),
                                format!("seq {} len {}", seq, c.data.len()),
                            ));
                        }
                    }
                    None => {
                        if w.nonvital.get(w.nv_cursor).map(|v| *v == c.data) != Some(true) {
                            return Err((
                                "nonvital-chunk-differs-from-queued".into(),
                                format!("len {} cursor {}", c.data.len(), w.nv_cursor),
                            ));
                        }
                        w.nv_cursor += 1;
                    }
                }
            }
        }
    }
    Ok(())
}

/// What the queued payloads are made of (set before a family is run; the families themselves
/// run one after the other).
static CONTENT_KIND: std::sync::atomic::AtomicUsize = std::sync::atomic::AtomicUsize::new(0);
const CONTENT_KINDS: [&str; 6] = ["sparse", "noise", "all-ff", "all-00", "header-like", "break-even"];

fn content(serial: usize, vital: bool, len: usize) -> Vec<u8> {
    match CONTENT_KIND.load(std::sync::atomic::Ordering::Relaxed) {
        0 => {}
        // does not compress
        1 => return vp_core::lcg_bytes(0x5eed ^ ((serial as u64) << 20) ^ ((vital as u64) << 40) ^ len as u64, len),
        // the longest code words of the compression table / the shortest
        2 => return vec![0xff; len],
        3 => return vec![0x00; len],
        // bytes that mean something in packet and chunk headers (connless marker, flag bits,
        // vital bit, size and sequence bits all set), then a serial
        4 => return (0..len).map(|i| match i % 8 { 0..=3 => 0xff, 4 => 0x80 | serial as u8, 5 => 0x40, 6 => 0x10 | vital as u8, _ => 0xf0 }).collect(),
        // a mix tuned so that the compressed size is close to the raw size (zeros are cheap,
        // noise is dear): the decision to compress flips with the serial and the length
        5 => {
            let noise = vp_core::lcg_bytes(0xbe ^ serial as u64 ^ ((len as u64) << 8), len);
            let zeros_per_8 = 3 + (serial + len) % 4;
            return (0..len).map(|i| if i % 8 < zeros_per_8 { 0 } else { noise[i] }).collect();
        }
        _ => unreachable!(),
    }
    // mostly zero (compressible) with identifying bytes
    (0..len)
        .map(|i| match i % 16 {
            0 => serial as u8 ^ 0x35,
            1 => vital as u8 + 1,
            2 => (i / 16) as u8,
            _ => 0,
        })
        .collect()
}

/// Craft a datagram from the peer (independent builder, correct token).
fn peer_datagram<E: Ep>(p: &Pair<E>, flags6: u8, flags7: u8, ack: u16) -> Vec<u8> {
    let v = p.ep[0].view(p.now);
    if E::V7 {
        let t = v.own_token.unwrap().unwrap();
        wire::build7(flags7, ack, 0, &[], t, false).unwrap()
    } else {
        let t = v.own_token.unwrap();
        wire::build6(flags6, ack, 0, &[], t, false).unwrap()
    }
}

fn run_sequence<E: Ep>(run: &Arc<Run>, base: &Pair<E>, seq: &[&Op]) -> Result<String, (String, String)> {
    let desc = json!({"api_sequence": seq.iter().map(|o| op_json(o)).collect::<Vec<_>>(), "variant": base.variant.name()});
    let _g = run.watchdog.watch(Arc::new(move || desc.clone()));
    let r = vp_core::catch(|| -> Result<String, (String, String)> {
        let mut p = base.clone_pair();
        let token_mode = if E::V7 { None } else { Some(p.variant == Variant::V6T) };
        let mut w = Wire {
            vital: Vec::new(),
            nonvital: Vec::new(),
            nv_cursor: 0,
            connless: Vec::new(),
            base: 0,
            datagrams: 0,
            compressed: 0,
        };
        let mut class = String::new();
        let mut refused = false;
        let mut disconnected = false;
        for op in seq {
            if disconnected {
                return Ok("skip:after-disconnect".into());
            }
            match op {
                Op::Send(len, vital) | Op::SendRefused(len, vital) => {
                    if let Op::SendRefused(..) = op {
                        p.fail_next[0] = 1;
                    }
                    let serial = if *vital { w.vital.len() } else { w.nonvital.len() };
                    let data = content(serial, *vital, *len);
                    let ok = p.with(0, |e, cb| e.send(cb, &data, *vital));
                    if ok {
                        if *vital {
                            w.vital.push(data)
                        } else {
                            w.nonvital.push(data)
                        }
                        class.push('s');
                    } else {
                        refused = true;
                        class.push('R');
                    }
                }
                Op::Flush | Op::FlushRefused => {
                    if let Op::FlushRefused = op {
                        p.fail_next[0] = 1;
                    }
                    p.with(0, |e, cb| e.flush(cb));
                    class.push('f');
                }
                Op::Tick(us) | Op::TickRefused(us) => {
                    if let Op::TickRefused(_) = op {
                        p.fail_next[0] = 1;
                    }
                    p.advance(*us);
                    p.with(0, |e, cb| e.tick(cb));
                    class.push('t');
                }
                Op::PeerRequestsResend => {
                    let d = peer_datagram(&p, wire::F6_RESEND, wire::F7_RESEND, 0);
                    let (ev, _) = p.feed(0, &d);
                    if !ev.is_empty() {
                        return Err(("resend-request-yields-events".into(), format!("{:?}", ev)));
                    }
                    class.push('q');
                }
                Op::PeerAcksAll => {
                    let ack = (w.vital.len() % 1024) as u16;
                    let d = peer_datagram(&p, wire::F6_CONTROL, wire::F7_CONTROL, ack);
                    // keep-alive: control byte 0
                    let mut d = d;
                    if E::V7 {
                        d.push(0);
                    } else {
                        // insert control byte before the token
                        let at = if token_mode == Some(true) { d.len() - 4 } else { d.len() };
                        d.insert(at, 0);
                    }
                    p.feed(0, &d);
                    class.push('a');
                }
                Op::Connless(len) => {
                    let data = content(200, false, *len);
                    let ok = p.with(0, |e, cb| e.send_connless(cb, &data));
                    if ok {
                        w.connless.push(data);
                        class.push('c');
                    } else {
                        refused = true;
                        class.push('R');
                    }
                }
                Op::Disconnect(len) => {
                    let reason = vec![b'r'; *len];
                    p.with(0, |e, cb| e.disconnect(cb, &reason));
                    disconnected = true;
                    class.push('d');
                }
            }
            // check what left
            for d in std::mem::take(&mut p.emitted[0]) {
                check_datagram::<E>(&mut w, token_mode, &d)?;
            }
        }
        if refused && !disconnected {
            // the connection must still be usable
            let data = content(w.vital.len(), true, 1);
            let ok = p.with(0, |e, cb| e.send(cb, &data, true));
            if !ok {
                return Err(("unusable-after-refusal".into(), "1-byte send refused after an error".into()));
            }
            w.vital.push(data);
            p.with(0, |e, cb| e.flush(cb));
            let out = std::mem::take(&mut p.emitted[0]);
            if out.is_empty() {
                return Err(("unusable-after-refusal".into(), "flush after an error sends nothing".into()));
            }
            for d in out {
                check_datagram::<E>(&mut w, token_mode, &d)?;
            }
            class.push_str("+u");
        }
        Ok(format!("{}:dgrams{}:comp{}:send-errors{}", class, w.datagrams.min(3), (w.compressed > 0) as u8, p.errors[0].min(2)))
    });
    match r {
        Ok(x) => x,
        Err(p) => Err((vp_core::panic_sig(&p), format!("panic: {}", p))),
    }
}

fn sequences<E: Ep>(run: &Arc<Run>, variant: Variant, depth: usize) {
    let base = Pair::<E>::online(variant);
    let ops = ops();
    let n = ops.len();
    let total: usize = (1..=depth).map(|d| n.pow(d as u32)).sum();
    // enumerate index space [0,total): shorter sequences first
    let local = (0..total)
        .into_par_iter()
        .fold(LocalClasses::new, |mut lc, idx| {
            let mut i = idx;
            let mut d = 1;
            while i >= n.pow(d as u32) {
                i -= n.pow(d as u32);
                d += 1;
            }
            let mut seq: Vec<&Op> = Vec::with_capacity(d);
            for _ in 0..d {
                seq.push(&ops[i % n]);
                i /= n;
            }
            lc.eval();
            match run_sequence(run, &base, &seq) {
                Ok(class) => lc.class(&format!("seq:{}:{}:{}", CONTENT_KINDS[CONTENT_KIND.load(std::sync::atomic::Ordering::Relaxed)], variant.name(), class), || {
                    json!(seq.iter().map(|o| op_json(o)).collect::<Vec<_>>())
                }),
                Err((sig, detail)) => {
                    run.violation(
                        &format!("{}:{}", variant.name(), sig),
                        &detail,
                        json!({"api_sequence": seq.iter().map(|o| op_json(o)).collect::<Vec<_>>(), "variant": variant.name(), "payload_content": CONTENT_KINDS[CONTENT_KIND.load(std::sync::atomic::Ordering::Relaxed)]}),
                    );
                }
            }
            lc
        })
        .reduce(LocalClasses::new, |a, b| a.merge(b));
    run.merge_classes(local);
}

/// Packets filled to the brim: two or three chunks queued without a flush whose bytes
/// (headers included) add up to every total around the largest datagram, then flushed, or
/// lost and rebuilt by the resend path. Each emitted datagram goes through `check_datagram`.
fn brim<E: Ep>(run: &Arc<Run>, variant: Variant) {
    let base = Pair::<E>::online(variant);
    let mut cases: Vec<Vec<Op>> = Vec::new();
    for total in 1376..=1406usize {
        for (v1, v2) in [(true, true), (true, false), (false, true), (false, false)] {
            let h = |v: bool| if v { 3 } else { 2 };
            for first in [0usize, 1, 360, 700, 1000] {
                // two chunks
                if total >= first + h(v1) + h(v2) {
                    let second = total - first - h(v1) - h(v2);
                    for tail in [vec![Op::Flush], vec![Op::Tick(500_000)], vec![Op::Flush, Op::Tick(1_000_000)], vec![Op::PeerRequestsResend], vec![Op::Send(0, true), Op::Flush], vec![Op::Disconnect(1)]] {
                        let mut seq = vec![Op::Send(first, v1), Op::Send(second, v2)];
                        seq.extend(tail);
                        cases.push(seq);
                    }
                }
                // three chunks: a small one in the middle
                if total >= first + h(v1) + h(v2) + 3 + 5 {
                    let third = total - first - h(v1) - h(v2) - 3 - 5;
                    cases.push(vec![Op::Send(first, v1), Op::Send(5, true), Op::Send(third, v2), Op::Flush]);
                    cases.push(vec![Op::Send(first, v1), Op::Send(5, true), Op::Send(third, v2), Op::Flush, Op::Tick(1_000_000), Op::Tick(500_000)]);
                }
            }
        }
    }
    let local = cases
        .par_iter()
        .fold(LocalClasses::new, |mut lc, seq| {
            let refs: Vec<&Op> = seq.iter().collect();
            lc.eval();
            match run_sequence(run, &base, &refs) {
                Ok(class) => lc.class(&format!("brim:{}:{}:{}", CONTENT_KINDS[CONTENT_KIND.load(std::sync::atomic::Ordering::Relaxed)], variant.name(), class), || json!(seq.iter().map(op_json).collect::<Vec<_>>())),
                Err((sig, detail)) => {
                    run.violation(&format!("{}:{}", variant.name(), sig), &detail, json!({"api_sequence": seq.iter().map(op_json).collect::<Vec<_>>(), "variant": variant.name(), "family": "packets filled to the brim", "payload_content": CONTENT_KINDS[CONTENT_KIND.load(std::sync::atomic::Ordering::Relaxed)]}));
                }
            }
            lc
        })
        .reduce(LocalClasses::new, |a, b| a.merge(b));
    run.merge_classes(local);
}

/// Handshakes with a random source that draws a reserved token value (ffffffff, 00000000) one
/// to three times in a row on either side before it behaves: connect, accept and the first data
/// exchange are valid API calls and must neither panic nor emit anything malformed.
/// Long runs: 2100 vital chunks, each flushed at once, acknowledged by the peer every 50 (or
/// every 500: a long resend queue) - the 10-bit sequence numbers come round twice.
fn long_runs<E: Ep>(run: &Arc<Run>, variant: Variant) {
    let base = Pair::<E>::online(variant);
    for (ack_every, flush_every) in [(50usize, 1usize), (500, 1), (50, 7), (1, 1)] {
        let mut seq: Vec<Op> = Vec::new();
        for i in 0..2100usize {
            seq.push(Op::Send(1 + i % 3, true));
            if (i + 1) % flush_every == 0 {
                seq.push(Op::Flush);
            }
            if (i + 1) % ack_every == 0 {
                seq.push(Op::Flush);
                seq.push(Op::PeerAcksAll);
            }
        }
        seq.push(Op::Flush);
        seq.push(Op::Tick(1_000_000));
        let refs: Vec<&Op> = seq.iter().collect();
        run.add_evals(seq.len() as u64);
        match run_sequence(run, &base, &refs) {
            Ok(class) => run.class(&format!("long-run:{}:ack-every-{}:flush-every-{}:{}", variant.name(), ack_every, flush_every, &class[class.len().saturating_sub(28)..]), || json!({"vital_chunks": 2100})),
            Err((sig, detail)) => {
                run.violation(&format!("{}:{}", variant.name(), sig), &detail, json!({"family": "long run of 2100 vital chunks", "variant": variant.name(), "peer_acks_every": ack_every, "flush_every": flush_every}));
            }
        }
    }
}

fn unlucky_random<E: Ep>(run: &Arc<Run>, variant: Variant) {
    for reserved in [[0xffu8; 4], [0u8; 4]] {
        for k in 1..=3usize {
            for side in 0..2usize {
                run.add_evals(1);
                let desc = json!({"family": "unlucky random source", "variant": variant.name(), "reserved_value": vp_core::hex(&reserved), "draws": k, "side": if side == 0 { "connecting" } else { "accepting" }});
                let d2 = desc.clone();
                let _g = run.watchdog.watch(Arc::new(move || d2.clone()));
                let r = vp_core::catch(|| -> Result<(), (String, String)> {
                    let mut p = Pair::<E>::new(variant);
                    p.unlucky[side] = vec![reserved; k];
                    let token_mode = if E::V7 { None } else { Some(variant == Variant::V6T) };
                    p.with(0, |e, cb| e.connect(cb));
                    p.settle();
                    p.with(0, |e, cb| {
                        let _ = e.send(cb, b"hi!", true);
                        e.flush(cb)
                    });
                    p.settle();
                    let v = [p.ep[0].view(p.now), p.ep[1].view(p.now)];
                    if v[0].state != E::ONLINE || v[1].state != E::ONLINE {
                        return Err(("handshake-fails-after-reserved-draws".into(), format!("states after the handshake: {} / {}", v[0].state_name, v[1].state_name)));
                    }
                    for s in 0..2 {
                        for d in std::mem::take(&mut p.emitted[s]) {
                            let r = E::read(&d, token_mode.map(|t| t && d != b"\x10\x00\x00\x01" as &[u8]));
                            if let Err(e) = r.packet {
                                // the 0.6 reader is told the token mode of the connection; the very
                                // first Connect of a token-less client is the one datagram without
                                return Err((format!("own-datagram-unreadable:{}", e), vp_core::hex_short(&d)));
                            }
                        }
                    }
                    Ok(())
                });
                match r {
                    Ok(Ok(())) => run.class(&format!("unlucky-random:{}:ok", variant.name()), || desc.clone()),
                    Ok(Err((sig, detail))) => {
                        run.violation(&format!("{}:{}", variant.name(), sig), &detail, desc.clone());
                    }
                    Err(pn) => {
                        run.violation(&format!("{}:{}", variant.name(), vp_core::panic_sig(&pn)), &format!("panic: {}", pn), desc.clone());
                    }
                }
            }
        }
    }
}

fn many_small<E: Ep>(run: &Arc<Run>, variant: Variant, max_n: usize) {
    let base = Pair::<E>::online(variant);
    // (n, size, vital, lose): with `lose` the first transmission is lost and the chunks
    // must come through the resend path (timer or peer request), which rebuilds packets
    let cases: Vec<(usize, usize, bool, u8)> = (1..=max_n)
        .flat_map(|n| [(n, 0, true, 0), (n, 1, true, 0), (n, 0, false, 0), (n, 1, false, 0), (n, 0, true, 1), (n, 1, true, 1), (n, 2, true, 2)])
        .collect();
    cases.par_iter().for_each(|&(n, size, vital, lose)| {
        run.add_evals(1);
        let desc = json!({"many_small_chunks": {"n": n, "size": size, "vital": vital, "first_transmission_lost": lose}, "variant": variant.name()});
        let _g = run.watchdog.watch(Arc::new(move || desc.clone()));
        let r = vp_core::catch(|| -> Result<(), (String, String)> {
            let mut p = base.clone_pair();
            let token_mode = if E::V7 { None } else { Some(variant == Variant::V6T) };
            let mut w = Wire {
                vital: Vec::new(),
                nonvital: Vec::new(),
                nv_cursor: 0,
                connless: Vec::new(),
                base: 0,
                datagrams: 0,
                compressed: 0,
            };
            for i in 0..n {
                let data = vec![(i % 251) as u8; size];
                if !p.with(0, |e, cb| e.send(cb, &data, vital)) {
                    return Err(("small-send-refused".into(), format!("send #{} refused", i)));
                }
                if vital { w.vital.push(data) } else { w.nonvital.push(data) }
            }
            p.with(0, |e, cb| e.flush(cb));
            for d in std::mem::take(&mut p.emitted[0]) {
                check_datagram::<E>(&mut w, token_mode, &d)?;
            }
            if lose != 0 {
                p.net[1].clear();
                if lose == 1 {
                    p.advance(1_000_000);
                    p.with(0, |e, cb| e.tick(cb));
                } else {
                    let d = peer_datagram(&p, wire::F6_RESEND, wire::F7_RESEND, 0);
                    p.feed(0, &d);
                }
                p.with(0, |e, cb| e.flush(cb));
                let out = std::mem::take(&mut p.emitted[0]);
                if out.is_empty() {
                    return Err(("resend-sends-nothing".into(), "no datagram after the loss".into()));
                }
                for d in out {
                    check_datagram::<E>(&mut w, token_mode, &d)?;
                }
            }
            let evs = p.settle();
            let got: Vec<&Vec<u8>> = evs[1]
                .iter()
                .filter_map(|e| match e {
                    Ev::Chunk(d, v) if *v == vital => Some(d),
                    _ => None,
                })
                .collect();
            let exp: Vec<&Vec<u8>> = if vital { w.vital.iter().collect() } else { w.nonvital.iter().collect() };
            if got != exp {
                return Err((
                    "small-chunks-lost".into(),
                    format!("{} of {} chunks arrived", got.len(), exp.len()),
                ));
            }
            Ok(())
        });
        let r = match r {
            Ok(x) => x,
            Err(p) => Err((vp_core::panic_sig(&p), format!("panic: {}", p))),
        };
        match r {
            Ok(()) => run.class(
                &format!("many:{}:size{}:vital{}:lost{}:{}", variant.name(), size, vital, lose, if n >= 256 { "n>=256" } else { "n<256" }),
                || json!({"n": n, "size": size, "vital": vital, "first_transmission_lost": lose}),
            ),
            Err((sig, detail)) => {
                run.violation(
                    &format!("{}:{}", variant.name(), sig),
                    &detail,
                    json!({"many_small_chunks": {"n": n, "size": size, "vital": vital, "first_transmission_lost": lose}, "variant": variant.name()}),
                );
            }
        }
    });
}

fn main() {
    let run = Run::new("C04", "exploration");
    vp_net::maybe_replay(&run);
    let _ = RANDOM;
    let variants = [Variant::V6T, Variant::V6N, Variant::V7];
    let depth = run.tier.pick(3, 4);
    // other payload contents: the shorter histories and the brim family again
    for kind in 1..CONTENT_KINDS.len() {
        CONTENT_KIND.store(kind, std::sync::atomic::Ordering::Relaxed);
        for v in variants {
            match v {
                Variant::V7 => {
                    sequences::<libtw2_net::connection7::Connection>(&run, v, depth - 1);
                    brim::<libtw2_net::connection7::Connection>(&run, v);
                }
                _ => {
                    sequences::<libtw2_net::connection::Connection>(&run, v, depth - 1);
                    brim::<libtw2_net::connection::Connection>(&run, v);
                }
            }
        }
    }
    CONTENT_KIND.store(0, std::sync::atomic::Ordering::Relaxed);
    for v in variants {
        match v {
            Variant::V7 => {
                sequences::<libtw2_net::connection7::Connection>(&run, v, depth);
                many_small::<libtw2_net::connection7::Connection>(&run, v, 700);
                brim::<libtw2_net::connection7::Connection>(&run, v);
                unlucky_random::<libtw2_net::connection7::Connection>(&run, v);
                long_runs::<libtw2_net::connection7::Connection>(&run, v);
            }
            _ => {
                sequences::<libtw2_net::connection::Connection>(&run, v, depth);
                many_small::<libtw2_net::connection::Connection>(&run, v, 700);
                brim::<libtw2_net::connection::Connection>(&run, v);
                unlucky_random::<libtw2_net::connection::Connection>(&run, v);
                long_runs::<libtw2_net::connection::Connection>(&run, v);
            }
        }
    }
    // the wire monitor over the two-endpoint model (with a compressible size class)
    let mut outcomes = Vec::new();
    for v in variants {
        let base = Cfg { sizes: vec![40], disconnects: 1, ..Cfg::base(v) };
        let cfgs = match run.tier {
            Tier::Quick => vec![Cfg { vsends: [1, 1], nsends: [1, 0], drops: 1, dups: 0, advances: 1, ..base.clone() }],
            Tier::Thorough => vec![
                Cfg { sizes: vec![3, 40], vsends: [1, 1], nsends: [1, 1], drops: 1, dups: 0, advances: 2, ..base.clone() },
                Cfg { vsends: [2, 1], nsends: [1, 0], drops: 1, dups: 1, advances: 2, disconnects: 0, ..base.clone() },
            ],
        };
        for cfg in cfgs {
            let dfs = run.tier == Tier::Thorough && cfg.vsends[0] + cfg.vsends[1] >= 3;
        let o = vp_net::explore_variant(cfg, &run, dfs);
            run.class(&format!("cfg:{}", o.label), || json!({"states": o.states, "stats": o.stats}));
            outcomes.push(o);
        }
    }
    vp_net::record(&run, &outcomes);
    run.add_evals(outcomes.iter().map(|o| o.transitions).sum());
    run.finish(
        &format!("all API call sequences of length <= {} over a {}-operation alphabet on an online endpoint (0.6+token, 0.6, 0.7), every emitted datagram read back with the library's own reader (no error, no warning, chunk count, chunks bit-identical); n = 1..700 small chunks without flush; two and three chunks adding up to every total 1376..1406 bytes queued without a flush, then flushed / ticked / resent; handshakes with a random source that draws a reserved token value 1..3 times in a row on either side; wire monitor on every datagram of the two-endpoint model; the sequences of length <= {} and the 1376..1406 family again with five other payload contents (incompressible noise, all 0xff, all 0x00, bytes that look like packet/chunk headers, a mix at the break-even point of the compression)", depth, ops().len(), depth - 1),
        true,
    );
}
