//! C20: the multi-peer endpoint keeps peers isolated (explicit-state
//! exploration of a real Net against per-address reference connections).

use vp_core::serde_json::json;
use vp_core::Run;
use vp_core::Tier;
use vp_net::netmodel::NCfg;

fn main() {
    let run = Run::new("C20", "model_checking");
    let base = NCfg {
        accepting: true,
        addrs: 2,
        remote_sends: 1,
        net_sends: 1,
        drops: 0,
        advances: 1,
        garbage: 0,
        net_connects: 0,
        disconnects: 0,
        cap: 3,
        start_peer_id: 0,
        defer: false,
        wraps: 0,
        send_faults: false,
    };
    let cfgs = match run.tier {
        Tier::Quick => vec![
            NCfg { ..base.clone() },
            NCfg { garbage: 1, remote_sends: 0, net_sends: 0, advances: 0, ..base.clone() },
            NCfg { disconnects: 1, remote_sends: 0, advances: 0, start_peer_id: u32::MAX - 1, ..base.clone() },
            NCfg { accepting: false, net_connects: 2, remote_sends: 1, net_sends: 1, advances: 1, ..base.clone() },
            NCfg { addrs: 3, remote_sends: 1, net_sends: 0, drops: 0, advances: 0, ..base.clone() },
            NCfg { addrs: 3, garbage: 1, remote_sends: 0, net_sends: 0, advances: 0, ..base.clone() },
            NCfg { addrs: 2, disconnects: 2, remote_sends: 1, net_sends: 1, advances: 0, start_peer_id: u32::MAX - 1, ..base.clone() },
            // the application leaves connection requests undecided across other peers' traffic and ticks
            NCfg { defer: true, addrs: 2, remote_sends: 0, net_sends: 1, advances: 2, ..base.clone() },
            // the environment refuses the close datagram of a disconnect
            NCfg { send_faults: true, addrs: 2, disconnects: 2, remote_sends: 0, net_sends: 1, advances: 0, ..base.clone() },
            NCfg { send_faults: true, defer: true, addrs: 2, disconnects: 1, remote_sends: 0, net_sends: 0, advances: 0, ..base.clone() },
            // the environment refuses one peer's datagram in the middle of a tick
            NCfg { send_faults: true, addrs: 2, disconnects: 0, remote_sends: 0, net_sends: 1, advances: 2, ..base.clone() },
            // the peer id counter comes round onto live peers
            NCfg { wraps: 1, addrs: 3, remote_sends: 0, net_sends: 0, advances: 0, disconnects: 1, ..base.clone() },
            NCfg { accepting: false, wraps: 1, addrs: 3, net_connects: 3, remote_sends: 0, net_sends: 0, advances: 0, ..base.clone() },
        ],
        Tier::Thorough => vec![
            NCfg { defer: true, addrs: 3, remote_sends: 0, net_sends: 0, advances: 1, ..base.clone() },
            NCfg { addrs: 3, remote_sends: 1, net_sends: 0, drops: 0, advances: 0, ..base.clone() },
            NCfg { addrs: 2, remote_sends: 1, net_sends: 1, drops: 1, advances: 2, ..base.clone() },
            NCfg { addrs: 3, garbage: 1, remote_sends: 0, net_sends: 0, advances: 0, ..base.clone() },
            NCfg { addrs: 2, disconnects: 2, remote_sends: 1, net_sends: 1, advances: 0, start_peer_id: u32::MAX - 1, ..base.clone() },
            NCfg { accepting: false, addrs: 2, net_connects: 2, remote_sends: 1, net_sends: 1, advances: 2, drops: 1, garbage: 0, ..base.clone() },
            NCfg { defer: true, addrs: 2, remote_sends: 1, net_sends: 1, advances: 2, disconnects: 1, ..base.clone() },
            NCfg { defer: true, addrs: 3, remote_sends: 0, net_sends: 1, advances: 2, ..base.clone() },
            NCfg { send_faults: true, addrs: 3, disconnects: 2, remote_sends: 0, net_sends: 1, advances: 1, ..base.clone() },
            NCfg { wraps: 2, addrs: 4, remote_sends: 0, net_sends: 0, advances: 0, disconnects: 1, ..base.clone() },
            NCfg { send_faults: true, addrs: 3, disconnects: 0, remote_sends: 0, net_sends: 1, advances: 2, ..base.clone() },
        ],
    };
    let mut outcomes = Vec::new();
    for cfg in cfgs {
        let o = vp_net::explore_net_mode(cfg, &run, run.tier == Tier::Thorough);
        run.class(&format!("cfg:{}", o.label), || json!({"states": o.states, "stats": o.stats}));
        let stop = o.violated;
        outcomes.push(o);
        if stop {
            break;
        }
    }
    vp_net::record(&run, &outcomes);
    run.add_evals(outcomes.iter().map(|o| o.transitions).sum());
    run.assume("a connection request is decided (accept / reject / ignore) either at once on the Connect event or, in the defer configurations, at any later step while the peer is still unconnected; a retransmitted request that reaches an undecided peer makes its connection answer by itself (the reference connection does the same) and the decision is then moot");
    run.assume("connect requests from unknown addresses are the two forms real clients send (with and without the DDNet token extension)");
    run.finish(
        "explicit-state exploration (stateright; breadth-first at the quick tier, depth-first at the thorough tier) of one real Net + per-address real remote connections + per-address reference connections; after every step events (peer ids mapped to addresses), outgoing datagrams with destination, needs_tick and the complete per-peer state must equal the references; a tick during which the environment refuses one peer's datagram reports the error and serves every other peer as usual; peer ids must be distinct, also after the 32-bit peer id counter has come round onto live peers (CounterWrap)",
        true,
    );
}
