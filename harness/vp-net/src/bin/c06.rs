//! C06: the packet reader is total and stays inside its buffers.

use libtw2_net::protocol as p6;
use libtw2_net::protocol7 as p7;
use std::sync::Arc;
use vp_core::rayon::prelude::*;
use vp_core::serde_json::json;
use vp_core::LocalClasses;
use vp_core::Run;
use vp_core::Tier;
use vp_net::wire;

fn inside(s: &[u8], a: &[u8], b: &[u8]) -> bool {
    if s.is_empty() {
        return true;
    }
    let within = |o: &[u8]| {
        let (sp, op) = (s.as_ptr() as usize, o.as_ptr() as usize);
        sp >= op && sp + s.len() <= op + o.len()
    };
    within(a) || within(b)
}

/// One input through every 0.6 entry point. Returns the outcome class.
/// Structural identity of a packet value (the library types have no `PartialEq`, and their
/// `Debug` output abbreviates payloads).
fn key6<'a>(p: &p6::Packet<'a>) -> (u8, Option<[u8; 4]>, u16, u8, u8, &'a [u8]) {
    match *p {
        p6::Packet::Connless(d) => (0, None, 0, 0, 0, d),
        p6::Packet::Connected(c) => {
            let t = c.token.map(|t| t.0);
            match c.type_ {
                p6::ConnectedPacketType::Chunks(rr, n, d) => (1, t, c.ack, rr as u8, n, d),
                p6::ConnectedPacketType::Control(ctrl) => match ctrl {
                    p6::ControlPacket::KeepAlive => (2, t, c.ack, 0, 0, &[]),
                    p6::ControlPacket::Connect => (3, t, c.ack, 0, 0, &[]),
                    p6::ControlPacket::ConnectAccept => (4, t, c.ack, 0, 0, &[]),
                    p6::ControlPacket::Accept => (5, t, c.ack, 0, 0, &[]),
                    p6::ControlPacket::Close(r) => (6, t, c.ack, 0, 0, r),
                },
            }
        }
    }
}

fn key7<'a>(p: &p7::Packet<'a>) -> (u8, [u8; 4], [u8; 4], u16, u8, u8, &'a [u8]) {
    const Z: [u8; 4] = [0; 4];
    match *p {
        p7::Packet::Connless(c) => (0, c.token.0, c.response_token.0, 0, 0, 0, c.payload),
        p7::Packet::Connected(c) => match c.type_ {
            p7::ConnectedPacketType::Chunks(rr, n, d) => (1, c.token.0, Z, c.ack, rr as u8, n, d),
            p7::ConnectedPacketType::Control(ctrl) => match ctrl {
                p7::ControlPacket::KeepAlive => (2, c.token.0, Z, c.ack, 0, 0, &[]),
                p7::ControlPacket::Connect(t) => (3, c.token.0, t.0, c.ack, 0, 0, &[]),
                p7::ControlPacket::Accept => (4, c.token.0, Z, c.ack, 0, 0, &[]),
                p7::ControlPacket::Close(r) => (5, c.token.0, Z, c.ack, 0, 0, r),
                p7::ControlPacket::Token(t) => (6, c.token.0, t.0, c.ack, 0, 0, &[]),
            },
        },
    }
}

fn check6(input: &[u8], hint: Option<bool>, bs: usize) -> Result<String, String> {
    // `bs`: size of the scratch buffer handed to the reader; the callers in
    // connection.rs / net.rs use exactly MAX_PACKETSIZE (1400), the minimum legal size.
    let mut buf = vec![0u8; bs];
    let bufp = buf.as_ptr() as usize;
    let bufrange: &[u8] = unsafe { std::slice::from_raw_parts(bufp as *const u8, bs) };
    let mut w: Vec<p6::Warning> = Vec::new();
    let _ = p6::Packet::is_initial(input);
    let class;
    match p6::Packet::read(&mut w, input, hint, &mut buf[..]) {
        Err(e) => class = format!("v6:err:{:?}", e),
        Ok(p) => {
            // pointer ranges
            let (slices, desc): (Vec<&[u8]>, String) = match p {
                p6::Packet::Connless(d) => (vec![d], "connless".into()),
                p6::Packet::Connected(c) => match c.type_ {
                    p6::ConnectedPacketType::Chunks(rr, n, d) => {
                        let mut v = vec![d];
                        let mut it = p6::ChunksIter::new(d, n);
                        let mut cw: Vec<p6::Warning> = Vec::new();
                        let mut cnt = 0;
                        while let Some(ch) = it.next_warn(&mut cw) {
                            if !inside(ch.data, d, &[]) {
                                return Err("chunk slice outside the payload".into());
                            }
                            if let Some((seq, _)) = ch.vital {
                                if seq >= 1024 {
                                    return Err(format!("sequence {} out of range", seq));
                                }
                            }
                            v.push(ch.data);
                            // an accepted chunk can be written again and is read back equal
                            let mut cbuf: Vec<u8> = Vec::with_capacity(ch.data.len() + 8);
                            let cw_bytes = match p6::write_chunk(ch.data, ch.vital, &mut cbuf) {
                                Ok(b) => b.to_vec(),
                                Err(e) => return Err(format!("accepted chunk cannot be written: {:?} ({:?})", e, ch)),
                            };
                            let mut it2 = p6::ChunksIter::new(&cw_bytes, 1);
                            let mut cw2: Vec<p6::Warning> = Vec::new();
                            match it2.next_warn(&mut cw2) {
                                Some(b2) if b2.data == ch.data && b2.vital == ch.vital && cw2.is_empty() => {}
                                other => return Err(format!("written and re-read chunk differs: {:?} vs {:?} (warnings {:?})", ch, other, cw2)),
                            }
                            cnt += 1;
                            if cnt > 2000 {
                                return Err("chunk iterator does not terminate".into());
                            }
                        }
                        let _ = it.clone().count();
                        (v, format!("chunks:rr{}:n{}:iter{}", rr as u8, n.min(3), cnt.min(3)))
                    }
                    p6::ConnectedPacketType::Control(ctrl) => match ctrl {
                        p6::ControlPacket::Close(r) => {
                            if r.len() > 127 || r.contains(&0) {
                                return Err("close reason too long or with NUL".into());
                            }
                            (vec![r], "close".into())
                        }
                        other => (vec![], format!("{:?}", other)),
                    },
                },
            };
            for s in &slices {
                if !inside(s, input, bufrange) {
                    return Err(format!("returned slice of {} bytes lies outside input and scratch buffer ({})", s.len(), desc));
                }
            }
            if let p6::Packet::Connected(c) = p {
                if c.ack >= 1024 {
                    return Err(format!("ack {} out of range", c.ack));
                }
            }
            // accepted => can be written and is read back equal
            let mut out = [0u8; 1400];
            let written = match p.write(&mut out[..]) {
                Ok(b) => b.to_vec(),
                Err(e) => return Err(format!("accepted packet cannot be written: {:?} ({:?})", e, p)),
            };
            let mut buf2 = [0u8; 1400];
            let mut w2: Vec<p6::Warning> = Vec::new();
            let hint2 = match p {
                p6::Packet::Connless(_) => None,
                p6::Packet::Connected(c) => Some(c.token.is_some()),
            };
            let back = p6::Packet::read(&mut w2, &written, hint2, &mut buf2[..])
                .map_err(|e| format!("re-reading the written packet fails: {:?} ({:?})", e, p))?;
            if key6(&back) != key6(&p) {
                return Err(format!("written and re-read packet differs: {:?} vs {:?}", p, back));
            }
            class = format!("v6:ok:{}:warn{}", desc, w.len().min(2));
        }
    }
    // the other entry points
    let compressed_flag = input.len() >= 3 && input[0] & wire::F6_COMPRESSION != 0 && input[0] & wire::F6_CONNLESS == 0;
    if !compressed_flag {
        let mut w3: Vec<p6::Warning> = Vec::new();
        let _ = p6::Packet::read_panic_on_decompression(&mut w3, input, hint);
    }
    let mut buf3 = vec![0u8; bs];
    let _ = p6::Packet::decompress_if_needed(input, &mut buf3[..]);
    Ok(class)
}

fn check7(input: &[u8], bs: usize) -> Result<String, String> {
    let mut buf = vec![0u8; bs];
    let bufp = buf.as_ptr() as usize;
    let bufrange: &[u8] = unsafe { std::slice::from_raw_parts(bufp as *const u8, bs) };
    let mut w: Vec<p7::Warning> = Vec::new();
    let class;
    match p7::Packet::read(&mut w, input, &mut buf[..]) {
        Err(e) => class = format!("v7:err:{:?}", e),
        Ok(p) => {
            let (slices, desc): (Vec<&[u8]>, String) = match p {
                p7::Packet::Connless(c) => (vec![c.payload], "connless".into()),
                p7::Packet::Connected(c) => match c.type_ {
                    p7::ConnectedPacketType::Chunks(rr, n, d) => {
                        let mut v = vec![d];
                        let mut it = p7::ChunksIter::new(d, n);
                        let mut cw: Vec<p7::Warning> = Vec::new();
                        let mut cnt = 0;
                        while let Some(ch) = it.next_warn(&mut cw) {
                            if !inside(ch.data, d, &[]) {
                                return Err("chunk slice outside the payload".into());
                            }
                            if let Some((seq, _)) = ch.vital {
                                if seq >= 1024 {
                                    return Err(format!("sequence {} out of range", seq));
                                }
                            }
                            v.push(ch.data);
                            // an accepted chunk can be written again and is read back equal
                            let mut cbuf: Vec<u8> = Vec::with_capacity(ch.data.len() + 8);
                            let cw_bytes = match p7::write_chunk(ch.data, ch.vital, &mut cbuf) {
                                Ok(b) => b.to_vec(),
                                Err(e) => return Err(format!("accepted chunk cannot be written: {:?} ({:?})", e, ch)),
                            };
                            let mut it2 = p7::ChunksIter::new(&cw_bytes, 1);
                            let mut cw2: Vec<p7::Warning> = Vec::new();
                            match it2.next_warn(&mut cw2) {
                                Some(b2) if b2.data == ch.data && b2.vital == ch.vital && cw2.is_empty() => {}
                                other => return Err(format!("written and re-read chunk differs: {:?} vs {:?} (warnings {:?})", ch, other, cw2)),
                            }
                            cnt += 1;
                            if cnt > 2000 {
                                return Err("chunk iterator does not terminate".into());
                            }
                        }
                        let _ = it.clone().count();
                        (v, format!("chunks:rr{}:n{}:iter{}", rr as u8, n.min(3), cnt.min(3)))
                    }
                    p7::ConnectedPacketType::Control(ctrl) => match ctrl {
                        p7::ControlPacket::Close(r) => {
                            if r.len() > 127 || r.contains(&0) {
                                return Err("close reason too long or with NUL".into());
                            }
                            (vec![r], "close".into())
                        }
                        p7::ControlPacket::Connect(_) => (vec![], "Connect".into()),
                        p7::ControlPacket::Token(_) => (vec![], "Token".into()),
                        other => (vec![], format!("{:?}", other)),
                    },
                },
            };
            for s in &slices {
                if !inside(s, input, bufrange) {
                    return Err(format!("returned slice of {} bytes lies outside input and scratch buffer ({})", s.len(), desc));
                }
            }
            if let p7::Packet::Connected(c) = p {
                if c.ack >= 1024 {
                    return Err(format!("ack {} out of range", c.ack));
                }
            }
            // write back: the writer refuses (asserts) a response token of
            // ffffffff, which an attacker can put on the wire; that value is
            // not expressible through the API, so it is not written back.
            let writable = match p {
                p7::Packet::Connected(c) => match c.type_ {
                    p7::ConnectedPacketType::Control(p7::ControlPacket::Connect(t))
                    | p7::ConnectedPacketType::Control(p7::ControlPacket::Token(t)) => t != p7::TOKEN_NONE,
                    _ => true,
                },
                _ => true,
            };
            if writable {
                let mut out = [0u8; 1400];
                let written = match p.write(&mut out[..]) {
                    Ok(b) => b.to_vec(),
                    Err(e) => return Err(format!("accepted packet cannot be written: {:?} ({:?})", e, p)),
                };
                let mut buf2 = [0u8; 1400];
                let mut w2: Vec<p7::Warning> = Vec::new();
                let back = p7::Packet::read(&mut w2, &written, &mut buf2[..])
                    .map_err(|e| format!("re-reading the written packet fails: {:?} ({:?})", e, p))?;
                if key7(&back) != key7(&p) {
                    return Err(format!("written and re-read packet differs: {:?} vs {:?}", p, back));
                }
            }
            class = format!("v7:ok:{}:warn{}", desc, w.len().min(2));
        }
    }
    let compressed_flag = input.len() >= 7 && input[0] & wire::F7_COMPRESSION != 0 && input[0] & wire::F7_CONNLESS == 0;
    if !compressed_flag {
        let mut w3: Vec<p7::Warning> = Vec::new();
        let _ = p7::Packet::read_panic_on_decompression(&mut w3, input);
    }
    let mut buf3 = vec![0u8; bs];
    let _ = p7::Packet::decompress_if_needed(input, &mut buf3[..]);
    Ok(class)
}

fn one(run: &Arc<Run>, lc: &mut LocalClasses, input: &[u8], family: &str) {
    const ONE: [usize; 1] = [1400];
    const ALL: [usize; 3] = [1400, 1401, 2048];
    let sizes6: &[usize] = if !input.is_empty() && input[0] & wire::F6_COMPRESSION != 0 { &ALL } else { &ONE };
    let sizes7: &[usize] = if !input.is_empty() && input[0] & wire::F7_COMPRESSION != 0 { &ALL } else { &ONE };
    for hint in [None, Some(true), Some(false)] {
      for &bs in sizes6 {
        lc.eval();
        match vp_core::catch(|| check6(input, hint, bs)) {
            Ok(Ok(c)) => lc.class(&format!("{}:hint{:?}", c, hint), || json!({"family": family, "input": vp_core::hex_short(input)})),
            Ok(Err(d)) => {
                run.violation(&format!("c06:v6:{}", d.split(':').next().unwrap_or("").chars().take(60).collect::<String>()), &d, json!({"version": "0.6", "scratch_buffer": bs, "token_hint": format!("{:?}", hint), "family": family, "input_hex": vp_core::hex(input)}));
            }
            Err(p) => {
                run.violation(&format!("c06:v6:{}", vp_core::panic_sig(&p)), &p, json!({"version": "0.6", "scratch_buffer": bs, "token_hint": format!("{:?}", hint), "family": family, "input_hex": vp_core::hex(input)}));
            }
        }
      }
    }
    for &bs in sizes7 {
    lc.eval();
    match vp_core::catch(|| check7(input, bs)) {
        Ok(Ok(c)) => lc.class(&c, || json!({"family": family, "input": vp_core::hex_short(input)})),
        Ok(Err(d)) => {
            run.violation(&format!("c06:v7:{}", d.split(':').next().unwrap_or("").chars().take(60).collect::<String>()), &d, json!({"version": "0.7", "scratch_buffer": bs, "family": family, "input_hex": vp_core::hex(input)}));
        }
        Err(p) => {
            run.violation(&format!("c06:v7:{}", vp_core::panic_sig(&p)), &p, json!({"version": "0.7", "scratch_buffer": bs, "family": family, "input_hex": vp_core::hex(input)}));
        }
    }
}
    }

fn par<I: IndexedParallelIterator<Item = Vec<u8>>>(run: &Arc<Run>, family: &str, it: I) {
    let t0 = std::time::Instant::now();
    let n = it.len();
    let lc = it
        .fold(LocalClasses::new, |mut lc, input| {
            one(run, &mut lc, &input, family);
            lc
        })
        .reduce(LocalClasses::new, |a, b| a.merge(b));
    run.merge_classes(lc);
    if std::env::var("VERIF_TIMING").is_ok() {
        eprintln!("  {:>9} inputs {:>6.1}s  {}", n, t0.elapsed().as_secs_f64(), family);
    }
}

/// Valid packets of every kind in both versions (bytes on the wire).
fn valid_packets() -> Vec<(String, Vec<u8>)> {
    let mut v: Vec<(String, Vec<u8>)> = Vec::new();
    let t = [0x12u8, 0x34, 0x56, 0x78];
    let chunks6 = {
        let mut c = wire::chunk(false, b"hello world", Some((5, false)));
        c.extend_from_slice(&wire::chunk(false, b"xy", None));
        c.extend_from_slice(&wire::chunk(false, &[0u8; 40], Some((6, true))));
        c
    };
    let chunks7 = {
        let mut c = wire::chunk(true, b"hello world", Some((5, false)));
        c.extend_from_slice(&wire::chunk(true, b"xy", None));
        c.extend_from_slice(&wire::chunk(true, &[0u8; 40], Some((6, true))));
        c
    };
    for tok in [None, Some(t)] {
        let tn = if tok.is_some() { "tok" } else { "notok" };
        for (name, ctl) in [("keepalive", vec![0u8]), ("connect", b"\x01TKEN".to_vec()), ("connectaccept", b"\x02TKEN".to_vec()), ("accept", vec![3]), ("close", b"\x04bye\0".to_vec()), ("close-empty", vec![4, 0]), ("connect-plain", vec![1])] {
            v.push((format!("v6:{}:{}", name, tn), wire::build6(wire::F6_CONTROL, 7, 0, &ctl, tok, false).unwrap()));
        }
        for compress in [false, true] {
            v.push((format!("v6:chunks:{}:c{}", tn, compress as u8), wire::build6(0, 1000, 3, &chunks6, tok, compress).unwrap()));
            v.push((format!("v6:chunks-rr:{}:c{}", tn, compress as u8), wire::build6(wire::F6_RESEND, 3, 3, &chunks6, tok, compress).unwrap()));
        }
    }
    // vital chunks with sequence numbers on both sides of every bit of the 10-bit field
    for seq in [0u16, 1, 3, 4, 63, 64, 255, 256, 511, 512, 513, 767, 768, 1022, 1023] {
        let c6 = wire::chunk(false, b"sequence", Some((seq, seq % 2 == 1)));
        let c7 = wire::chunk(true, b"sequence", Some((seq, seq % 2 == 1)));
        v.push((format!("v6:chunk-seq{}", seq), wire::build6(0, seq, 1, &c6, Some(t), false).unwrap()));
        v.push((format!("v6:chunk-seq{}:notok", seq), wire::build6(0, 1023 - seq, 1, &c6, None, false).unwrap()));
        v.push((format!("v7:chunk-seq{}", seq), wire::build7(0, seq, 1, &c7, t, false).unwrap()));
    }
    // close reasons around the 127-byte limit, with and without terminator, with inner NULs
    for n in [126usize, 127, 128, 129, 200] {
        for (term, tname) in [(true, "nul"), (false, "nonul")] {
            let mut ctl = vec![4u8];
            ctl.extend(std::iter::repeat(b'r').take(n));
            if term {
                ctl.push(0);
            }
            for tok in [None, Some(t)] {
                v.push((format!("v6:close{}:{}:{}", n, tname, tok.is_some()), wire::build6(wire::F6_CONTROL, 1, 0, &ctl, tok, false).unwrap()));
            }
            v.push((format!("v7:close{}:{}", n, tname), wire::build7(wire::F7_CONTROL, 1, 0, &ctl, t, false).unwrap()));
        }
    }
    v.push(("v6:close-inner-nul".into(), wire::build6(wire::F6_CONTROL, 1, 0, b"\x04ab\0cd\0", None, false).unwrap()));
    v.push(("v7:close-inner-nul".into(), wire::build7(wire::F7_CONTROL, 1, 0, b"\x04ab\0cd\0", t, false).unwrap()));
    v.push(("v6:connless".into(), b"\xff\xff\xff\xff\xff\xffinfo".to_vec()));
    for (name, ctl) in [("keepalive", vec![0u8]), ("connect", vec![1, 9, 8, 7, 6]), ("accept", vec![2]), ("close", b"\x04bye\0".to_vec()), ("token", vec![5, 9, 8, 7, 6])] {
        v.push((format!("v7:{}", name), wire::build7(wire::F7_CONTROL, 7, 0, &ctl, t, false).unwrap()));
    }
    let mut req = vec![5u8, 9, 8, 7, 6];
    req.extend_from_slice(&[0u8; 512]);
    v.push(("v7:token-request".into(), wire::build7(wire::F7_CONTROL, 0, 0, &req, [0xff; 4], false).unwrap()));
    for compress in [false, true] {
        v.push((format!("v7:chunks:c{}", compress as u8), wire::build7(0, 1000, 3, &chunks7, t, compress).unwrap()));
        v.push((format!("v7:chunks-rr:c{}", compress as u8), wire::build7(wire::F7_RESEND, 3, 3, &chunks7, t, compress).unwrap()));
    }
    v.push(("v7:connless".into(), wire::build7_connless(t, [1, 2, 3, 4], b"info")));
    v
}

const BOUNDARY: [u8; 14] = [0x00, 0x01, 0x02, 0x03, 0x04, 0x05, 0x0f, 0x10, 0x3f, 0x40, 0x7f, 0x80, 0xfe, 0xff];

fn main() {
    let run = Run::new("C06", "exploration");
    let thorough = run.tier == Tier::Thorough;
    // 1. every byte string of length <= 3 (thorough) / <= 2 plus a stride of length 3 (quick)
    par(&run, "all strings len<=2", (0..65793u32).into_par_iter().map(|i| {
        if i == 0 { vec![] } else if i <= 256 { vec![(i - 1) as u8] } else { let j = i - 257; vec![(j >> 8) as u8, j as u8] }
    }));
    if thorough {
        par(&run, "all strings len 3", (0..1u32 << 24).into_par_iter().map(|i| vec![(i >> 16) as u8, (i >> 8) as u8, i as u8]));
    } else {
        // every first byte x every second byte x 14 boundary third bytes
        par(&run, "len 3: all b0,b1 x boundary b2", (0..65536u32 * 14).into_par_iter().map(|i| {
            let k = i / 14;
            vec![(k >> 8) as u8, k as u8, BOUNDARY[(i % 14) as usize]]
        }));
    }
    // length 4..9: every first byte x boundary values elsewhere (0.7 header is 7 bytes)
    for len in 4..=9usize {
        let n = 256u32 * 14u32.pow(2) * 3;
        par(&run, &format!("len {}: all b0 x boundary", len), (0..n).into_par_iter().map(move |i| {
            let b0 = (i % 256) as u8;
            let r = i / 256;
            let x = BOUNDARY[(r % 14) as usize];
            let y = BOUNDARY[((r / 14) % 14) as usize];
            let fill = [0x00u8, 0xff, 0x04][(r / 196) as usize];
            let mut v = vec![fill; len];
            v[0] = b0;
            v[1] = x;
            v[2] = y;
            v
        }));
    }
    // 2. corruptions of valid packets
    let valid = valid_packets();
    let mut mutated: Vec<Vec<u8>> = Vec::new();
    for (_, p) in &valid {
        for cut in 0..=p.len() {
            mutated.push(p[..cut].to_vec());
        }
        for ext in 1..=4 {
            for fill in [0u8, 0xff] {
                let mut q = p.clone();
                q.extend(std::iter::repeat(fill).take(ext));
                mutated.push(q);
            }
        }
        let npos = p.len().min(if thorough { 64 } else { 24 });
        for i in 0..npos {
            let vals: Vec<u8> = if i < 3 { (0..=255).collect() } else { BOUNDARY.to_vec() };
            for &x in &vals {
                let mut q = p.clone();
                q[i] = x;
                mutated.push(q.clone());
                // pairs: with every boundary value at every later position of the head
                // (quick: pairs only for packets of ordinary size; the long ones differ from
                // their short siblings only in the payload length)
                if thorough || (i < 8 && p.len() <= 128) {
                    for j in (i + 1)..p.len().min(if thorough { 16 } else { 10 }) {
                        for &y in &BOUNDARY {
                            let mut r = q.clone();
                            r[j] = y;
                            mutated.push(r);
                        }
                    }
                }
            }
        }
        // last bytes (token / terminator area)
        for back in 1..=p.len().min(6) {
            for &x in &BOUNDARY {
                let mut q = p.clone();
                let i = p.len() - back;
                q[i] = x;
                mutated.push(q);
            }
        }
    }
    run.set("valid_packet_kinds", json!(valid.iter().map(|v| v.0.clone()).collect::<Vec<_>>()));
    par(&run, "field corruptions / truncations / extensions of valid packets", mutated.into_par_iter());
    // 3. compressed payloads that expand beyond a packet; prefixes of compressed packets
    let mut big: Vec<Vec<u8>> = Vec::new();
    let step = if thorough { 1 } else { 13 };
    for l in (1380..=3000usize).step_by(step) {
        for class in 0..3 {
            let payload: Vec<u8> = match class { 0 => vec![0; l], 1 => (0..l).map(|i| b"abc"[i % 3]).collect(), _ => (0..l).map(|i| (i % 7) as u8).collect() };
            if let Some(c) = wire::ref_compress(&payload) {
                if c.len() <= 1393 {
                    let mut d6 = vec![wire::F6_COMPRESSION, 0, 1];
                    d6.extend_from_slice(&c);
                    big.push(d6);
                    if c.len() <= 1393 - 4 {
                        let mut d7 = vec![wire::F7_COMPRESSION, 0, 1, 1, 2, 3, 4];
                        d7.extend_from_slice(&c);
                        big.push(d7);
                    }
                }
            }
        }
    }
    par(&run, "compressed payloads expanding to 1380..3000 bytes", big.into_par_iter());
    let mut prefixes: Vec<Vec<u8>> = Vec::new();
    for (name, p) in &valid {
        if name.ends_with("c1") {
            for cut in 0..=p.len() {
                prefixes.push(p[..cut].to_vec());
                for &x in &BOUNDARY {
                    let mut q = p[..cut].to_vec();
                    q.push(x);
                    prefixes.push(q);
                }
            }
        }
    }
    par(&run, "prefixes of compressed packets (+1 arbitrary byte)", prefixes.into_par_iter());
    // 3b. valid packets of every kind grown to the maximum datagram size and just beyond
    let mut maxed: Vec<Vec<u8>> = Vec::new();
    for (_, p) in &valid {
        for total in 1380..=1402usize {
            for fill in [0u8, b'a', 0xff] {
                // grow in the middle (after the header area) and at the end
                let mut q = p.clone();
                while q.len() < total {
                    q.push(fill);
                }
                maxed.push(q);
                let at = p.len().min(9);
                let mut r = p[..at].to_vec();
                r.extend(std::iter::repeat(fill).take(total.saturating_sub(p.len())));
                r.extend_from_slice(&p[at..]);
                maxed.push(r);
            }
        }
    }
    par(&run, "valid packets grown to 1380..1402 bytes", maxed.into_par_iter());
    // 4. constant strings of every length
    let consts: Vec<Vec<u8>> = (0..=3000usize).step_by(if thorough { 1 } else { 3 })
        .flat_map(|l| [0x00u8, 0x01, 0x10, 0x40, 0x55, 0x80, 0xaa, 0xff].into_iter().map(move |b| vec![b; l]))
        .collect();
    par(&run, "constant-byte strings of length 0..3000", consts.into_par_iter());
    run.assume("a response token of ffffffff in a 0.7 Connect/Token control message is accepted by the reader but is not expressible through the writer API (the writer asserts on it); such values are exempt from the write-back clause");
    run.finish(
        "byte strings fed to Packet::read (0.6 with token hint None/true/false, 0.7), read_panic_on_decompression (uncompressed only), decompress_if_needed, is_initial and ChunksIter: all strings of length <=2 (<=3 thorough), boundary-structured strings up to 9 bytes, every truncation / extension / single-field and field-pair corruption of valid packets of every kind, compressed payloads expanding to 1380..3000 bytes, prefixes of compressed packets, constant strings of length 0..3000; scratch buffers of 1400 (the size the callers use, the minimum legal one), 1401 and 2048 bytes for compressed inputs, re-reads always with 1400; oracle: returns, no panic, returned slices inside input or scratch buffer (pointer ranges), fields in range, accepted value writes and re-reads equal (packets, and every chunk the iterator hands out); outcome class = (version, error variant or accepted kind, warnings, hint)",
        true,
    );
}
