//! C01: vital chunks exactly once, in order, uncorrupted (explicit-state
//! exploration of two real endpoints + exhaustive acceptance tables).

use vp_core::serde_json::json;
use vp_core::Run;
use vp_core::Tier;
use vp_net::model::Cfg;
use vp_net::model::Variant;

fn main() {
    let run = Run::new("C01", "model_checking");
    let mut outcomes = Vec::new();
    let variants = [Variant::V6T, Variant::V6N, Variant::V7];
    let mut cfgs: Vec<Cfg> = Vec::new();
    for v in variants {
        let base = Cfg::base(v);
        match run.tier {
            Tier::Quick => {
                cfgs.push(Cfg { vsends: [2, 0], drops: 1, dups: 1, ..base.clone() });
                cfgs.push(Cfg { vsends: [1, 1], nsends: [1, 0], drops: 1, dups: 1, advances: 2, ..base.clone() });
            }
            Tier::Thorough => {
                cfgs.push(Cfg { vsends: [3, 0], drops: 1, dups: 1, ..base.clone() });
                cfgs.push(Cfg { vsends: [2, 0], drops: 2, dups: 1, advances: 3, ..base.clone() });
                cfgs.push(Cfg { vsends: [1, 2], nsends: [1, 0], drops: 1, dups: 1, advances: 2, ..base.clone() });
            }
        }
    }
    for cfg in cfgs {
        let o = vp_net::explore_variant(cfg, &run, false);
        run.class(&format!("cfg:{}", o.label), || json!({"states": o.states}));
        let stop = o.violated;
        outcomes.push(o);
        if stop {
            break;
        }
    }
    vp_net::record(&run, &outcomes);
    run.add_evals(outcomes.iter().map(|o| o.transitions).sum());
    run.finish(
        "explicit-state exploration (stateright BFS) of two real Connection objects; a transition is one real API call or one network event; states deduplicated on the complete verif_view of both endpoints + in-flight datagrams + monitors + budgets",
        true,
    );
}
