//! C01: vital chunks exactly once, in order, uncorrupted (explicit-state
//! exploration of two real endpoints + exhaustive acceptance tables).

use std::sync::Arc;
use vp_core::serde_json::json;
use vp_core::Run;
use vp_net::ep::Ep;
use vp_net::ep::Ev;
use vp_net::ep::WPacket;
use vp_net::pair::Pair;
use vp_net::wire;
use vp_core::Tier;
use vp_net::model::Cfg;
use vp_net::model::Variant;

/// Datagram from the peer of `p.ep[side]` built by the independent builder
/// with the token that endpoint expects.
fn craft<E: Ep>(p: &Pair<E>, side: usize, control: Option<u8>, ack: u16, chunks: &[(u16, &[u8])]) -> Vec<u8> {
    let v = p.ep[side].view(p.now);
    let mut payload = Vec::new();
    if let Some(c) = control {
        payload.push(c);
    }
    for (seq, data) in chunks {
        payload.extend_from_slice(&wire::chunk(E::V7, data, Some((*seq, false))));
    }
    if E::V7 {
        let t = v.own_token.unwrap().unwrap();
        let flags = if control.is_some() { wire::F7_CONTROL } else { 0 };
        wire::build7(flags, ack, chunks.len() as u8, &payload, t, false).unwrap()
    } else {
        let t = v.own_token.unwrap();
        let flags = if control.is_some() { wire::F6_CONTROL } else { 0 };
        wire::build6(flags, ack, chunks.len() as u8, &payload, t, false).unwrap()
    }
}

/// Table (i): acceptance rule. For every acknowledged value a and every
/// incoming sequence s: delivered iff s == a+1 (mod 1024), and the ack moves
/// iff delivered.
fn table_accept<E: Ep>(run: &Arc<Run>, variant: Variant) {
    let mut p = Pair::<E>::online(variant);
    for a in 0..1024u16 {
        // p.ep[1] has acknowledged `a` chunks
        let va = p.ep[1].view(p.now);
        assert_eq!(va.online.as_ref().unwrap().ack, a);
        for s in 0..1024u16 {
            run.add_evals(1);
            let mut q = p.clone_pair();
            let d = craft(&q, 1, None, 0, &[(s, b"probe")]);
            let r = vp_core::catch(|| q.feed(1, &d));
            let (ev, _) = match r {
                Ok(x) => x,
                Err(pn) => {
                    run.violation(&format!("{}:{}", variant.name(), vp_core::panic_sig(&pn)), &pn, json!({"table": "accept", "acked": a, "incoming_sequence": s}));
                    continue;
                }
            };
            let delivered = ev.iter().filter(|e| matches!(e, Ev::Chunk(d, true) if d == b"probe")).count();
            let ack_after = q.ep[1].view(q.now).online.as_ref().unwrap().ack;
            let should = s == (a + 1) % 1024;
            let ok = ev.len() == delivered
                && delivered == should as usize
                && ack_after == if should { s } else { a };
            if !ok {
                run.violation(
                    &format!("{}:c01:acceptance-rule", variant.name()),
                    &format!("acked {} incoming seq {}: delivered {} times, ack afterwards {}", a, s, delivered, ack_after),
                    json!({"table": "accept", "variant": variant.name(), "acked": a, "incoming_sequence": s}),
                );
            } else {
                let dist = (s + 1024 - a) % 1024;
                let class = match dist {
                    1 => "next",
                    0 => "duplicate-of-last",
                    2..=511 => "future",
                    512 => "half-window",
                    _ => "past",
                };
                run.class(&format!("accept:{}:{}", variant.name(), class), || json!({"acked": a, "incoming_sequence": s}));
            }
        }
        // advance the receiver by one accepted chunk
        let next = (a + 1) % 1024;
        let d = craft(&p, 1, None, 0, &[(next, b"step")]);
        let (ev, _) = p.feed(1, &d);
        assert_eq!(ev.len(), 1, "table driver: step chunk not delivered");
    }
}

/// Table (ii): sender ack processing. `n` unacked chunks after base sequence
/// `b`; an incoming ack value k removes exactly the chunks up to k if k names a
/// queued sequence, nothing otherwise; the resend afterwards carries exactly
/// the remaining ones, oldest first.
fn table_ack<E: Ep>(run: &Arc<Run>, variant: Variant) {
    let bases: Vec<u16> = vec![0, 1, 510, 511, 512, 1020, 1021, 1022, 1023];
    let mut p = Pair::<E>::online(variant);
    let mut sent: u16 = 0;
    for &b in &bases {
        // bring the client's sequence to b with everything acknowledged
        while sent < b {
            let data = [b'x', sent as u8, (sent >> 8) as u8];
            assert!(p.with(0, |e, cb| e.send(cb, &data, true)));
            p.with(0, |e, cb| e.flush(cb));
            p.net[1].clear();
            sent += 1;
            let d = craft(&p, 0, Some(0), sent % 1024, &[]);
            p.feed(0, &d);
        }
        let v = p.ep[0].view(p.now);
        let o = v.online.as_ref().unwrap();
        assert_eq!(o.sequence, b % 1024);
        assert!(o.resend_queue.is_empty());
        for n in 1..=4u16 {
            let mut q = p.clone_pair();
            let mut queued: Vec<(u16, Vec<u8>)> = Vec::new();
            for i in 0..n {
                let data = vec![b'q', i as u8, n as u8, b as u8];
                assert!(q.with(0, |e, cb| e.send(cb, &data, true)));
                queued.push(((b + 1 + i) % 1024, data));
            }
            q.with(0, |e, cb| e.flush(cb));
            q.net[1].clear();
            for k in 0..1024u16 {
                run.add_evals(1);
                let mut r = q.clone_pair();
                let d = craft(&r, 0, Some(0), k, &[]);
                let res = vp_core::catch(|| {
                    r.feed(0, &d);
                    r.advance(1_000_000);
                    r.emitted[0].clear();
                    r.with(0, |e, cb| e.tick(cb));
                    r.with(0, |e, cb| e.flush(cb));
                });
                if let Err(pn) = res {
                    run.violation(&format!("{}:{}", variant.name(), vp_core::panic_sig(&pn)), &pn, json!({"table": "ack", "base": b, "unacked": n, "incoming_ack": k}));
                    continue;
                }
                let expected: Vec<(u16, Vec<u8>)> = match queued.iter().position(|(s, _)| *s == k) {
                    Some(i) => queued[i + 1..].to_vec(),
                    None => queued.clone(),
                };
                let mut got: Vec<(u16, Vec<u8>)> = Vec::new();
                let mode = if E::V7 { None } else { Some(variant == Variant::V6T) };
                for d in &r.emitted[0] {
                    if let Ok(WPacket::Chunks { chunks, .. }) = E::read(d, mode).packet {
                        for c in chunks {
                            if let Some((seq, _)) = c.vital {
                                got.push((seq, c.data));
                            }
                        }
                    }
                }
                if got != expected {
                    run.violation(
                        &format!("{}:c01:ack-processing", variant.name()),
                        &format!(
                            "base {} unacked {} incoming ack {}: resent sequences {:?}, expected {:?}",
                            b, n, k,
                            got.iter().map(|x| x.0).collect::<Vec<_>>(),
                            expected.iter().map(|x| x.0).collect::<Vec<_>>()
                        ),
                        json!({"table": "ack", "variant": variant.name(), "base": b, "unacked": n, "incoming_ack": k}),
                    );
                } else {
                    let class = if expected.len() == queued.len() { "acks-nothing" } else if expected.is_empty() { "acks-all" } else { "acks-some" };
                    run.class(&format!("ack:{}:{}", variant.name(), class), || json!({"base": b, "unacked": n, "incoming_ack": k}));
                }
            }
        }
    }
}

fn tables(run: &Arc<Run>, v: Variant) {
    match v {
        Variant::V7 => {
            table_accept::<libtw2_net::connection7::Connection>(run, v);
            table_ack::<libtw2_net::connection7::Connection>(run, v);
        }
        _ => {
            table_accept::<libtw2_net::connection::Connection>(run, v);
            table_ack::<libtw2_net::connection::Connection>(run, v);
        }
    }
}

fn main() {
    let run = Run::new("C01", "model_checking");
    vp_net::maybe_replay(&run);
    std::thread::scope(|sc| {
        for v in [Variant::V6T, Variant::V6N, Variant::V7] {
            let run = &run;
            sc.spawn(move || tables(run, v));
        }
    });
    let mut outcomes = Vec::new();
    let variants = [Variant::V6T, Variant::V6N, Variant::V7];
    let mut cfgs: Vec<Cfg> = Vec::new();
    for v in variants {
        let base = Cfg::base(v);
        match run.tier {
            Tier::Quick => {
                cfgs.push(Cfg { vsends: [2, 0], drops: 1, dups: 1, ..base.clone() });
                cfgs.push(Cfg { vsends: [1, 1], nsends: [1, 0], drops: 1, dups: 1, advances: 2, ..base.clone() });
                // sequence wrap-around window 1023, 0, 1 and a start with unacked chunks
                cfgs.push(Cfg { prefix_chunks: 1022, vsends: [2, 1], drops: 1, dups: 1, advances: 1, ..base.clone() });
                cfgs.push(Cfg { prefix_chunks: 1, prefix_unacked: 2, vsends: [1, 0], drops: 1, dups: 1, advances: 2, ..base.clone() });
                // a duplicate of each side's very first vital datagram is still in flight; together
                // with the chunks sent during exploration it is delayed across at most 1023 sequence
                // numbers (1024 is the protocol's limit and excluded by the property's assumption)
                cfgs.push(Cfg { prefix_chunks: 1023, prefix_stale: true, vsends: [0, 0], nsends: [1, 0], drops: 0, dups: 0, advances: 1, ..base.clone() });
                cfgs.push(Cfg { prefix_chunks: 1022, prefix_stale: true, vsends: [1, 1], drops: 0, dups: 0, advances: 1, ..base.clone() });
                cfgs.push(Cfg { prefix_chunks: 511, prefix_stale: true, vsends: [1, 0], drops: 0, dups: 0, advances: 0, ..base.clone() });
                cfgs.push(Cfg { prefix_chunks: 512, prefix_stale: true, vsends: [1, 0], drops: 0, dups: 0, advances: 0, ..base.clone() });
                // the environment refuses one datagram (the call that tried to send it gets the error)
                cfgs.push(Cfg { faults: 1, vsends: [1, 1], drops: 0, dups: 1, advances: 2, ..base.clone() });
            }
            Tier::Thorough => {
                cfgs.push(Cfg { vsends: [3, 0], drops: 1, dups: 1, ..base.clone() });
                cfgs.push(Cfg { vsends: [2, 0], drops: 2, dups: 1, advances: 3, ..base.clone() });
                cfgs.push(Cfg { vsends: [1, 2], nsends: [1, 0], drops: 1, dups: 1, advances: 2, ..base.clone() });
                cfgs.push(Cfg { prefix_chunks: 1021, vsends: [3, 1], drops: 1, dups: 1, advances: 2, ..base.clone() });
                cfgs.push(Cfg { prefix_chunks: 1, prefix_unacked: 3, vsends: [1, 1], drops: 2, dups: 1, advances: 2, ..base.clone() });
                cfgs.push(Cfg { vsends: [2, 0], drops: 1, dups: 1, advances: 3, steps: vec![250_000], ..base.clone() });
                cfgs.push(Cfg { prefix_chunks: 1021, prefix_stale: true, vsends: [2, 1], drops: 1, dups: 1, advances: 1, ..base.clone() });
                cfgs.push(Cfg { prefix_chunks: 1022, prefix_stale: true, vsends: [1, 1], drops: 1, dups: 1, advances: 2, ..base.clone() });
                cfgs.push(Cfg { faults: 2, vsends: [1, 1], nsends: [1, 0], drops: 1, dups: 1, advances: 2, ..base.clone() });
            }
        }
    }
    for cfg in cfgs {
        assert!(!cfg.prefix_stale || cfg.prefix_chunks as usize + cfg.vsends[0].max(cfg.vsends[1]) as usize <= 1023, "a stale duplicate must stay within 1023 sequence numbers");
        // depth-first search for the large configurations: same state set, far less memory
        let dfs = run.tier == Tier::Thorough && (cfg.prefix_chunks > 1000 || cfg.vsends[0] + cfg.vsends[1] >= 3);
        let o = vp_net::explore_variant(cfg, &run, dfs);
        run.class(&format!("cfg:{}", o.label), || json!({"states": o.states}));
        let stop = o.violated;
        outcomes.push(o);
        if stop {
            break;
        }
    }
    vp_net::record(&run, &outcomes);
    run.add_evals(outcomes.iter().map(|o| o.transitions).sum());
    run.finish(
        "explicit-state exploration (stateright BFS) of two real Connection objects; a transition is one real API call or one network event; states deduplicated on the complete verif_view of both endpoints + in-flight datagrams + monitors + budgets",
        true,
    );
}
