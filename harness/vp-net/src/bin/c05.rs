//! C05: packet encoding and decoding are mutually inverse (exhaustive header
//! sweeps + whole-packet families, both protocol versions).

use libtw2_common::bytes::AsBytesExt;
use libtw2_common::bytes::FromBytesExt;
use libtw2_net::protocol as p6;
use libtw2_net::protocol7 as p7;
use std::sync::Arc;
use vp_core::rayon::prelude::*;
use vp_core::serde_json::json;
use vp_core::LocalClasses;
use vp_core::Run;
use vp_core::Tier;
use vp_net::wire;

fn viol(run: &Arc<Run>, sig: &str, detail: String, case: vp_core::serde_json::Value) {
    run.violation(sig, &detail, case);
}

fn sweep<F>(run: &Arc<Run>, name: &str, n: u64, f: F)
where
    F: Fn(u64, &mut LocalClasses) -> Result<(), String> + Sync,
{
    let lc = (0..n)
        .into_par_iter()
        .fold(LocalClasses::new, |mut lc, i| {
            lc.eval();
            let r = vp_core::catch(|| f(i, &mut lc));
            match r {
                Ok(Ok(())) => {}
                Ok(Err(d)) => viol(run, &format!("c05:{}", name), d, json!({"sweep": name, "index": i})),
                Err(p) => viol(run, &format!("c05:{}:{}", name, vp_core::panic_sig(&p)), p, json!({"sweep": name, "index": i})),
            }
            lc
        })
        .reduce(LocalClasses::new, |a, b| a.merge(b));
    run.merge_classes(lc);
}

fn headers(run: &Arc<Run>) {
    // 0.6 packet header: all 2^24 bit patterns
    sweep(run, "v6-packet-header-unpack", 1 << 24, |i, lc| {
        let b = [(i >> 16) as u8, (i >> 8) as u8, i as u8];
        let mut w: Vec<p6::Warning> = Vec::new();
        let h = p6::PacketHeaderPacked::from_array(b).unpack_warn(&mut w);
        if h.flags >> 4 != 0 || h.ack >> 10 != 0 {
            return Err(format!("{:02x?}: field out of range {:?}", b, h));
        }
        let connless = b[0] & 0x20 != 0;
        let canonical = b[0] & 0x0c == 0;
        let re = *h.pack().as_byte_array();
        if canonical && re != b {
            return Err(format!("{:02x?}: canonical pattern re-packs to {:02x?}", b, re));
        }
        if canonical && !w.is_empty() {
            return Err(format!("{:02x?}: canonical pattern warns {:?}", b, w));
        }
        if !canonical && !connless && w.is_empty() {
            return Err(format!("{:02x?}: non-canonical pattern raises no warning", b));
        }
        lc.class(
            &format!("v6ph:{}{}", if canonical { "canonical" } else { "padding" }, if connless { ":connless" } else { "" }),
            || json!(vp_core::hex(&b)),
        );
        Ok(())
    });
    // 0.6 / 0.7 non-vital chunk headers: all 2^16
    sweep(run, "chunk-header-unpack", 1 << 16, |i, lc| {
        let b = [(i >> 8) as u8, i as u8];
        {
            let mut w: Vec<p6::Warning> = Vec::new();
            let h = p6::ChunkHeaderPacked::from_array(b).unpack_warn(&mut w);
            if h.flags >> 2 != 0 || h.size >> 10 != 0 {
                return Err(format!("v6 {:02x?}: field out of range {:?}", b, h));
            }
            let canonical = b[1] & 0xf0 == 0;
            let re = *h.pack().as_byte_array();
            if canonical != w.is_empty() || (canonical && re != b) {
                return Err(format!("v6 {:02x?}: canonical={} warnings={:?} repack={:02x?}", b, canonical, w, re));
            }
            lc.class(&format!("v6ch:{}", canonical), || json!(vp_core::hex(&b)));
        }
        {
            let mut w: Vec<p7::Warning> = Vec::new();
            let h = p7::ChunkHeaderPacked::from_array(b).unpack_warn(&mut w);
            if h.flags >> 2 != 0 || h.size >> 12 != 0 {
                return Err(format!("v7 {:02x?}: field out of range {:?}", b, h));
            }
            let canonical = b[1] & 0xc0 == 0;
            let re = *h.pack().as_byte_array();
            if canonical != w.is_empty() || (canonical && re != b) {
                return Err(format!("v7 {:02x?}: canonical={} warnings={:?} repack={:02x?}", b, canonical, w, re));
            }
            lc.class(&format!("v7ch:{}", canonical), || json!(vp_core::hex(&b)));
        }
        Ok(())
    });
    // vital chunk headers: all 2^24
    sweep(run, "vital-chunk-header-unpack", 1 << 24, |i, lc| {
        let b = [(i >> 16) as u8, (i >> 8) as u8, i as u8];
        {
            let mut w: Vec<p6::Warning> = Vec::new();
            let h = p6::ChunkHeaderVitalPacked::from_array(b).unpack_warn(&mut w);
            if h.h.flags >> 2 != 0 || h.h.size >> 10 != 0 || h.sequence >> 10 != 0 {
                return Err(format!("v6 {:02x?}: field out of range {:?}", b, h));
            }
            // doc/packet.md: sequence bits 6 and 7 are stored twice
            let canonical = (b[1] & 0x30) >> 4 == (b[2] & 0xc0) >> 6;
            let re = *h.pack().as_byte_array();
            if canonical != w.is_empty() || (canonical && re != b) {
                return Err(format!("v6 {:02x?}: canonical={} warnings={:?} repack={:02x?}", b, canonical, w, re));
            }
            lc.class(&format!("v6chv:{}", canonical), || json!(vp_core::hex(&b)));
        }
        {
            let mut w: Vec<p7::Warning> = Vec::new();
            let h = p7::ChunkHeaderVitalPacked::from_array(b).unpack_warn(&mut w);
            if h.h.flags >> 2 != 0 || h.h.size >> 12 != 0 || h.sequence >> 10 != 0 {
                return Err(format!("v7 {:02x?}: field out of range {:?}", b, h));
            }
            let re = *h.pack().as_byte_array();
            if !w.is_empty() || re != b {
                return Err(format!("v7 {:02x?}: warnings={:?} repack={:02x?}", b, w, re));
            }
            lc.class("v7chv", || json!(vp_core::hex(&b)));
        }
        Ok(())
    });
    // 0.7 packet header: all 2^24 values of the first three bytes x 5 tokens
    let tokens: [[u8; 4]; 5] = [[0; 4], [0xff; 4], [0x12, 0x34, 0x56, 0x78], [0x80, 0, 0, 1], [1, 2, 3, 0xff]];
    sweep(run, "v7-packet-header-unpack", (1 << 24) * 5, |i, lc| {
        let t = tokens[(i >> 24) as usize];
        let b = [(i >> 16) as u8, (i >> 8) as u8, i as u8, t[0], t[1], t[2], t[3]];
        let mut w: Vec<p7::Warning> = Vec::new();
        let h = p7::PacketHeaderPacked::from_array(b).unpack_warn(&mut w);
        if h.flags >> 4 != 0 || h.ack >> 10 != 0 || h.token.0 != t {
            return Err(format!("{:02x?}: bad fields {:?}", b, h));
        }
        let canonical = b[0] & 0xc0 == 0;
        let re = *h.pack().as_byte_array();
        if canonical != w.is_empty() || (canonical && re != b) {
            return Err(format!("{:02x?}: canonical={} warnings={:?} repack={:02x?}", b, canonical, w, re));
        }
        lc.class(&format!("v7ph:{}", canonical), || json!(vp_core::hex(&b)));
        Ok(())
    });
    sweep(run, "v7-connless-header-unpack", 256 * 25, |i, lc| {
        let t = tokens[((i >> 8) % 5) as usize];
        let r = tokens[((i >> 8) / 5) as usize];
        let b = [i as u8, t[0], t[1], t[2], t[3], r[0], r[1], r[2], r[3]];
        let mut w: Vec<p7::Warning> = Vec::new();
        let h = p7::PacketHeaderConnlessPacked::from_array(b).unpack_warn(&mut w);
        if h.flags >> 4 != 0 || h.version >> 2 != 0 || h.token.0 != t || h.response_token.0 != r {
            return Err(format!("{:02x?}: bad fields {:?}", b, h));
        }
        let canonical = b[0] & 0xc0 == 0;
        let re = *h.pack().as_byte_array();
        if canonical != w.is_empty() || (canonical && re != b) {
            return Err(format!("{:02x?}: canonical={} warnings={:?} repack={:02x?}", b, canonical, w, re));
        }
        lc.class(&format!("v7phc:{}", canonical), || json!(vp_core::hex(&b)));
        Ok(())
    });
    // all in-range field tuples: pack -> unpack = identity, no warning
    sweep(run, "packet-header-pack", 16 * 1024 * 256, |i, lc| {
        let flags = (i >> 18) as u8;
        let ack = ((i >> 8) & 1023) as u16;
        let num_chunks = i as u8;
        {
            let h = p6::PacketHeader { flags, ack, num_chunks };
            let mut w: Vec<p6::Warning> = Vec::new();
            let back = h.pack().unpack_warn(&mut w);
            if back != h || !w.is_empty() {
                return Err(format!("v6 {:?} -> {:?} {:?}", h, back, w));
            }
        }
        {
            let h = p7::PacketHeader { flags, ack, num_chunks, token: p7::Token([num_chunks, 1, 2, flags]) };
            let mut w: Vec<p7::Warning> = Vec::new();
            let back = h.pack().unpack_warn(&mut w);
            if back != h || !w.is_empty() {
                return Err(format!("v7 {:?} -> {:?} {:?}", h, back, w));
            }
        }
        lc.class(&format!("ph-pack:flags{}", flags), || json!({"flags": flags, "ack": ack, "num_chunks": num_chunks}));
        Ok(())
    });
    sweep(run, "chunk-header-pack", 4 * 4096 * 1024, |i, lc| {
        let flags = (i >> 22) as u8;
        let size = ((i >> 10) & 4095) as u16;
        let sequence = (i & 1023) as u16;
        if size < 1024 {
            let h = p6::ChunkHeaderVital { h: p6::ChunkHeader { flags, size }, sequence };
            let mut w: Vec<p6::Warning> = Vec::new();
            let back = h.pack().unpack_warn(&mut w);
            if back != h || !w.is_empty() {
                return Err(format!("v6 {:?} -> {:?} {:?}", h, back, w));
            }
            if sequence == 0 {
                let back = h.h.pack().unpack_warn(&mut w);
                if back != h.h || !w.is_empty() {
                    return Err(format!("v6 {:?} -> {:?} {:?}", h.h, back, w));
                }
            }
        }
        let h = p7::ChunkHeaderVital { h: p7::ChunkHeader { flags, size }, sequence };
        let mut w: Vec<p7::Warning> = Vec::new();
        let back = h.pack().unpack_warn(&mut w);
        if back != h || !w.is_empty() {
            return Err(format!("v7 {:?} -> {:?} {:?}", h, back, w));
        }
        if sequence == 0 {
            let back = h.h.pack().unpack_warn(&mut w);
            if back != h.h || !w.is_empty() {
                return Err(format!("v7 {:?} -> {:?} {:?}", h.h, back, w));
            }
        }
        lc.class(&format!("ch-pack:flags{}", flags), || json!({"flags": flags, "size": size, "sequence": sequence}));
        Ok(())
    });
}

/// Four content classes, from highly compressible to incompressible.
fn content(class: usize, len: usize) -> Vec<u8> {
    match class {
        0 => vec![0; len],
        1 => (0..len).map(|i| b"abc"[i % 3]).collect(),
        2 => (0..len).map(|i| i as u8).collect(),
        _ => vp_core::lcg_bytes(0x5eed, len),
    }
}

/// A payload of exactly `len` bytes made of whole real chunks (len >= 2);
/// for len < 2 raw bytes (packet level only).
fn chunk_payload(v7: bool, class: usize, len: usize) -> (u8, Vec<u8>, bool) {
    if len < 2 {
        return (0, content(class, len), false);
    }
    let cap = if v7 { 1390 } else { 1023 };
    let mut out = Vec::new();
    let mut n = 0u8;
    let mut seq = 1u16;
    let mut remaining = len;
    while remaining > 0 {
        assert!(remaining >= 2 && n < 255);
        let mut vital = n % 2 == 0 && remaining >= 3;
        let mut hs = if vital { 3 } else { 2 };
        let planned = if n < 3 { 17 + 11 * n as usize } else { cap };
        let mut dl = (remaining - hs).min(cap).min(planned);
        let leftover = remaining - hs - dl;
        if leftover == 1 {
            if dl >= 1 {
                dl -= 1;
            } else if vital {
                vital = false;
                hs = 2;
                dl = 1;
            } else {
                vital = true;
                hs = 3;
                dl = 0;
            }
        }
        let data = content(class, dl);
        out.extend_from_slice(&wire::chunk(v7, &data, if vital { Some((seq, n % 4 == 0)) } else { None }));
        if vital {
            seq = (seq + 1) % 1024;
        }
        n += 1;
        remaining -= hs + dl;
    }
    assert_eq!(out.len(), len);
    (n, out, true)
}

fn packets6(run: &Arc<Run>, tier: Tier) {
    let acks_all: Vec<u16> = (0..1024).collect();
    let acks_few: Vec<u16> = vec![0, 1, 255, 256, 511, 1023];
    let token = p6::Token([0x12, 0x34, 0x56, 0x78]);
    // (kind index, token?, len, class)
    let mut cases: Vec<(u8, bool, usize, usize)> = Vec::new();
    for tok in [false, true] {
        for k in 0..4u8 {
            cases.push((k, tok, 0, 0)); // keepalive, connect, connectaccept, accept
        }
        for len in 0..=127 {
            cases.push((4, tok, len, 1)); // close
        }
        for class in 0..4 {
            // up to what a datagram can carry: 1400 - 3 (header) - 4 (token, if any)
            for len in 0..=(if tok { 1393 } else { 1397 }) {
                cases.push((5, tok, len, class)); // chunks
                cases.push((6, tok, len, class)); // chunks + request_resend
            }
        }
    }
    for class in 0..4 {
        for len in 0..=1396 {
            cases.push((7, false, len, class)); // connless
        }
    }
    let lc = cases
        .par_iter()
        .fold(LocalClasses::new, |mut lc, &(kind, tok, len, class)| {
            let acks: &[u16] = if tier == Tier::Thorough || len <= 64 { &acks_all } else { &acks_few };
            for &ack in acks {
                lc.eval();
                let t = if tok { Some(token) } else { None };
                let reason = content(1, len);
                let (nchunks, payload, exact) = if kind == 5 || kind == 6 { chunk_payload(false, class, len) } else { (0, content(class, len), false) };
                let r = vp_core::catch(|| -> Result<String, String> {
                    let pk = match kind {
                        0..=4 => p6::Packet::Connected(p6::ConnectedPacket {
                            ack,
                            token: t,
                            type_: p6::ConnectedPacketType::Control(match kind {
                                0 => p6::ControlPacket::KeepAlive,
                                1 => p6::ControlPacket::Connect,
                                2 => p6::ControlPacket::ConnectAccept,
                                3 => p6::ControlPacket::Accept,
                                _ => p6::ControlPacket::Close(&reason),
                            }),
                        }),
                        5 | 6 => p6::Packet::Connected(p6::ConnectedPacket {
                            ack,
                            token: t,
                            type_: p6::ConnectedPacketType::Chunks(kind == 6, nchunks, &payload),
                        }),
                        _ => p6::Packet::Connless(&payload),
                    };
                    let mut out = [0u8; 1400];
                    let bytes = match pk.write(&mut out[..]) {
                        Ok(b) => b,
                        // a payload that cannot be carried (6 + len > 1400) must be refused; one that can may be
                        Err(p6::Error::TooLongData) if kind == 7 && len > 1390 => return Ok("connless:refused-too-long".into()),
                        Err(e) => return Err(format!("write failed: {:?}", e)),
                    };
                    if kind == 7 && 6 + len > 1400 {
                        return Err("connless payload that cannot be carried was accepted".into());
                    }
                    let compressed = kind != 7 && bytes[0] & wire::F6_COMPRESSION != 0;
                    let mut w: Vec<p6::Warning> = Vec::new();
                    let mut buf = [0u8; 1400]; // the size the callers pass (the minimum the reader accepts)
                    let back = p6::Packet::read(&mut w, bytes, if kind == 7 { None } else { Some(tok) }, &mut buf[..])
                        .map_err(|e| format!("read failed: {:?} for {}", e, vp_core::hex_short(bytes)))?;
                    // the one warning the reader defines for a degenerate value
                    w.retain(|x| !(kind == 5 && nchunks == 0 && *x == p6::Warning::ChunksNoChunks));
                    if !w.is_empty() {
                        return Err(format!("warnings {:?} for {}", w, vp_core::hex_short(bytes)));
                    }
                    let same = match (pk, back) {
                        (p6::Packet::Connless(a), p6::Packet::Connless(b)) => a == b,
                        (p6::Packet::Connected(a), p6::Packet::Connected(b)) => {
                            a.ack == b.ack
                                && a.token == b.token
                                && match (a.type_, b.type_) {
                                    (p6::ConnectedPacketType::Chunks(r1, n1, d1), p6::ConnectedPacketType::Chunks(r2, n2, d2)) => {
                                        r1 == r2 && n1 == n2 && d1 == d2
                                    }
                                    (p6::ConnectedPacketType::Control(c1), p6::ConnectedPacketType::Control(c2)) => match (c1, c2) {
                                        (p6::ControlPacket::KeepAlive, p6::ControlPacket::KeepAlive) => true,
                                        (p6::ControlPacket::Connect, p6::ControlPacket::Connect) => true,
                                        (p6::ControlPacket::ConnectAccept, p6::ControlPacket::ConnectAccept) => true,
                                        (p6::ControlPacket::Accept, p6::ControlPacket::Accept) => true,
                                        (p6::ControlPacket::Close(x), p6::ControlPacket::Close(y)) => x == y,
                                        _ => false,
                                    },
                                    _ => false,
                                }
                        }
                        _ => false,
                    };
                    if !same {
                        return Err(format!("read back differs: {:?} vs {:?}", pk, back));
                    }
                    // chunk level: real chunks come back without warnings
                    if exact {
                        if let p6::Packet::Connected(p6::ConnectedPacket { type_: p6::ConnectedPacketType::Chunks(_, n, d), .. }) = back {
                            let mut it = p6::ChunksIter::new(d, n);
                            let mut cnt = 0;
                            let mut cw: Vec<p6::Warning> = Vec::new();
                            while let Some(_) = it.next_warn(&mut cw) {
                                cnt += 1;
                            }
                            if cnt != n as usize || !cw.is_empty() {
                                return Err(format!("chunk iteration: {} of {} chunks, warnings {:?}", cnt, n, cw));
                            }
                        }
                    }
                    Ok(format!("v6:kind{}:token{}:compressed{}", kind, tok as u8, compressed as u8))
                });
                match r {
                    Ok(Ok(c)) => lc.class(&c, || json!({"kind": kind, "token": tok, "ack": ack, "len": len, "content_class": class})),
                    Ok(Err(d)) => viol(run, "c05:v6-packet-roundtrip", d, json!({"version": "0.6", "kind": kind, "token": tok, "ack": ack, "len": len, "content_class": class})),
                    Err(p) => viol(run, &format!("c05:v6:{}", vp_core::panic_sig(&p)), p, json!({"version": "0.6", "kind": kind, "token": tok, "ack": ack, "len": len, "content_class": class})),
                }
            }
            lc
        })
        .reduce(LocalClasses::new, |a, b| a.merge(b));
    run.merge_classes(lc);
}

fn packets7(run: &Arc<Run>, tier: Tier) {
    let acks_all: Vec<u16> = (0..1024).collect();
    let acks_few: Vec<u16> = vec![0, 1, 255, 256, 511, 1023];
    let tokens = [p7::Token([0x12, 0x34, 0x56, 0x78]), p7::TOKEN_NONE, p7::Token([0; 4])];
    let resp = p7::Token([0xaa, 0xbb, 0xcc, 0x01]);
    let mut cases: Vec<(u8, usize, usize, usize)> = Vec::new(); // kind, token idx, len, class
    for ti in 0..3 {
        for k in 0..4u8 {
            cases.push((k, ti, 0, 0)); // keepalive, connect, accept, token
        }
        for len in 0..=127 {
            cases.push((4, ti, len, 1));
        }
        for class in 0..4 {
            for len in 0..=1393 {
                cases.push((5, ti, len, class));
                cases.push((6, ti, len, class));
            }
        }
        for class in 0..4 {
            for len in 0..=1393 {
                cases.push((7, ti, len, class));
            }
        }
    }
    let lc = cases
        .par_iter()
        .fold(LocalClasses::new, |mut lc, &(kind, ti, len, class)| {
            let acks: &[u16] = if kind == 7 { &acks_few[..1] } else if tier == Tier::Thorough || len <= 64 { &acks_all } else { &acks_few };
            for &ack in acks {
                lc.eval();
                let token = tokens[ti];
                let reason = content(1, len);
                let (nchunks, payload, exact) = if kind == 5 || kind == 6 { chunk_payload(true, class, len) } else { (0, content(class, len), false) };
                let r = vp_core::catch(|| -> Result<String, String> {
                    let pk = match kind {
                        0..=4 => p7::Packet::Connected(p7::ConnectedPacket {
                            ack,
                            token,
                            type_: p7::ConnectedPacketType::Control(match kind {
                                0 => p7::ControlPacket::KeepAlive,
                                1 => p7::ControlPacket::Connect(resp),
                                2 => p7::ControlPacket::Accept,
                                3 => p7::ControlPacket::Token(resp),
                                _ => p7::ControlPacket::Close(&reason),
                            }),
                        }),
                        5 | 6 => p7::Packet::Connected(p7::ConnectedPacket {
                            ack,
                            token,
                            type_: p7::ConnectedPacketType::Chunks(kind == 6, nchunks, &payload),
                        }),
                        _ => p7::Packet::Connless(p7::ConnlessPacket { token, response_token: resp, payload: &payload }),
                    };
                    let mut out = [0u8; 1400];
                    let bytes = match pk.write(&mut out[..]) {
                        Ok(b) => b,
                        Err(p7::Error::TooLongData) if kind == 7 && len > 1390 => return Ok("v7:connless:refused-too-long".into()),
                        Err(e) => return Err(format!("write failed: {:?}", e)),
                    };
                    if kind == 7 && 9 + len > 1400 {
                        return Err("connless payload that cannot be carried was accepted".into());
                    }
                    let compressed = kind != 7 && bytes[0] & wire::F7_COMPRESSION != 0;
                    let mut w: Vec<p7::Warning> = Vec::new();
                    let mut buf = [0u8; 1400]; // the size the callers pass (the minimum the reader accepts)
                    let back = p7::Packet::read(&mut w, bytes, &mut buf[..])
                        .map_err(|e| format!("read failed: {:?} for {}", e, vp_core::hex_short(bytes)))?;
                    w.retain(|x| !(kind == 5 && nchunks == 0 && *x == p7::Warning::ChunksNoChunks));
                    if !w.is_empty() {
                        return Err(format!("warnings {:?} for {}", w, vp_core::hex_short(bytes)));
                    }
                    let same = match (pk, back) {
                        (p7::Packet::Connless(a), p7::Packet::Connless(b)) => {
                            a.payload == b.payload && a.token == b.token && a.response_token == b.response_token
                        }
                        (p7::Packet::Connected(a), p7::Packet::Connected(b)) => {
                            a.ack == b.ack
                                && a.token == b.token
                                && match (a.type_, b.type_) {
                                    (p7::ConnectedPacketType::Chunks(r1, n1, d1), p7::ConnectedPacketType::Chunks(r2, n2, d2)) => {
                                        r1 == r2 && n1 == n2 && d1 == d2
                                    }
                                    (p7::ConnectedPacketType::Control(c1), p7::ConnectedPacketType::Control(c2)) => match (c1, c2) {
                                        (p7::ControlPacket::KeepAlive, p7::ControlPacket::KeepAlive) => true,
                                        (p7::ControlPacket::Connect(x), p7::ControlPacket::Connect(y)) => x == y,
                                        (p7::ControlPacket::Accept, p7::ControlPacket::Accept) => true,
                                        (p7::ControlPacket::Token(x), p7::ControlPacket::Token(y)) => x == y,
                                        (p7::ControlPacket::Close(x), p7::ControlPacket::Close(y)) => x == y,
                                        _ => false,
                                    },
                                    _ => false,
                                }
                        }
                        _ => false,
                    };
                    if !same {
                        return Err(format!("read back differs: {:?} vs {:?}", pk, back));
                    }
                    if exact {
                        if let p7::Packet::Connected(p7::ConnectedPacket { type_: p7::ConnectedPacketType::Chunks(_, n, d), .. }) = back {
                            let mut it = p7::ChunksIter::new(d, n);
                            let mut cnt = 0;
                            let mut cw: Vec<p7::Warning> = Vec::new();
                            while let Some(_) = it.next_warn(&mut cw) {
                                cnt += 1;
                            }
                            if cnt != n as usize || !cw.is_empty() {
                                return Err(format!("chunk iteration: {} of {} chunks, warnings {:?}", cnt, n, cw));
                            }
                        }
                    }
                    Ok(format!("v7:kind{}:token{}:compressed{}", kind, ti, compressed as u8))
                });
                match r {
                    Ok(Ok(c)) => lc.class(&c, || json!({"kind": kind, "token_index": ti, "ack": ack, "len": len, "content_class": class})),
                    Ok(Err(d)) => viol(run, "c05:v7-packet-roundtrip", d, json!({"version": "0.7", "kind": kind, "token_index": ti, "ack": ack, "len": len, "content_class": class})),
                    Err(p) => viol(run, &format!("c05:v7:{}", vp_core::panic_sig(&p)), p, json!({"version": "0.7", "kind": kind, "token_index": ti, "ack": ack, "len": len, "content_class": class})),
                }
            }
            lc
        })
        .reduce(LocalClasses::new, |a, b| a.merge(b));
    run.merge_classes(lc);
}

/// Compressed payloads whose first data bytes run through every ordered pair of byte values
/// followed by one of 8 third bytes (then zeros, so that the writer chooses compression): every
/// stored code of the built-in table is emitted at every bit offset with a variety of bits after it.
fn pair_payloads(run: &Arc<Run>) {
    const THIRD: [u8; 8] = [0x00, 0x01, 0x20, 0x61, 0x80, 0xf8, 0xfe, 0xff];
    let lc = (0..65536u32 * 8)
        .into_par_iter()
        .fold(LocalClasses::new, |mut lc, i| {
            let (p, b, s) = ((i >> 11) as u8, (i >> 3) as u8, THIRD[(i & 7) as usize]);
            let mut data = vec![p, b, s];
            data.extend(std::iter::repeat(0u8).take(40 + (i % 3) as usize));
            let payload = wire::chunk(false, &data, None);
            let payload7 = wire::chunk(true, &data, None);
            lc.eval();
            let r = vp_core::catch(|| -> Result<&'static str, String> {
                let mut comp = false;
                {
                    let pk = p6::Packet::Connected(p6::ConnectedPacket { ack: 5, token: None, type_: p6::ConnectedPacketType::Chunks(false, 1, &payload) });
                    let mut out = [0u8; 1400];
                    let bytes = pk.write(&mut out[..]).map_err(|e| format!("0.6 write failed: {:?}", e))?;
                    comp |= bytes[0] & wire::F6_COMPRESSION != 0;
                    let mut w: Vec<p6::Warning> = Vec::new();
                    let mut buf = [0u8; 1400];
                    match p6::Packet::read(&mut w, bytes, Some(false), &mut buf[..]) {
                        Ok(p6::Packet::Connected(p6::ConnectedPacket { ack: 5, token: None, type_: p6::ConnectedPacketType::Chunks(false, 1, d) })) if d == &payload[..] && w.is_empty() => {}
                        other => return Err(format!("0.6: read back {:?} (warnings {:?})", other.map(|_| "a different packet"), w)),
                    }
                }
                {
                    let pk = p7::Packet::Connected(p7::ConnectedPacket { ack: 5, token: p7::Token([1, 2, 3, 4]), type_: p7::ConnectedPacketType::Chunks(false, 1, &payload7) });
                    let mut out = [0u8; 1400];
                    let bytes = pk.write(&mut out[..]).map_err(|e| format!("0.7 write failed: {:?}", e))?;
                    comp |= bytes[0] & wire::F7_COMPRESSION != 0;
                    let mut w: Vec<p7::Warning> = Vec::new();
                    let mut buf = [0u8; 1400];
                    match p7::Packet::read(&mut w, bytes, &mut buf[..]) {
                        Ok(p7::Packet::Connected(p7::ConnectedPacket { ack: 5, type_: p7::ConnectedPacketType::Chunks(false, 1, d), .. })) if d == &payload7[..] && w.is_empty() => {}
                        other => return Err(format!("0.7: read back {:?} (warnings {:?})", other.map(|_| "a different packet"), w)),
                    }
                }
                Ok(if comp { "pair-payload:compressed" } else { "pair-payload:plain" })
            });
            match r {
                Ok(Ok(c)) => lc.class(c, || json!({"first_bytes": [p, b, s]})),
                Ok(Err(d)) => viol(run, "c05:pair-payload-roundtrip", d, json!({"first_bytes": [p, b, s], "zeros_after": 40 + (i % 3)})),
                Err(pn) => viol(run, &format!("c05:pair-payload:{}", vp_core::panic_sig(&pn)), pn, json!({"first_bytes": [p, b, s]})),
            }
            lc
        })
        .reduce(LocalClasses::new, |a, b| a.merge(b));
    run.merge_classes(lc);
}

fn main() {
    let run = Run::new("C05", "exploration");
    headers(&run);
    packets6(&run, run.tier);
    packets7(&run, run.tier);
    pair_payloads(&run);
    run.assume("reader told the true token mode; the degenerate value 'zero chunks and no resend request' is exempt from the no-warning clause (the repository's own tests set it aside)");
    run.finish(
        "all 2^24 0.6 packet headers, all 2^16/2^24 0.6 and 0.7 chunk headers, 5 x 2^24 0.7 packet headers, all 0.7 connless first bytes x 25 token pairs, all in-range field tuples; every packet kind x token x ack x payload length 0..max x 4 content classes written and read back (quick: all 1024 acks only for lengths <= 8, 6 acks otherwise); compressed chunk payloads whose first bytes run through every ordered pair of byte values followed by one of 8 third bytes; a case is non-trivial-distinct by (sweep, canonical/kind, token, compression outcome)",
        true,
    );
}
