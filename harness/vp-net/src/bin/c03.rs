//! C03: datagrams without the agreed token are inert. On every unique state
//! of the two-endpoint model in which an endpoint has fixed a token, every
//! datagram of the foreign alphabet is fed to a copy: no event, no reply, no
//! state change. Plus: tokens handed out by an acceptor are never reserved.

use std::sync::Arc;
use vp_core::serde_json::json;
use vp_core::Run;
use vp_core::Tier;
use vp_net::ep::Cb;
use vp_net::ep::Ep;
use vp_net::model::Cfg;
use vp_net::model::Variant;
use vp_net::model::RANDOM;
use vp_net::pair::Pair;
use vp_net::wire;
use vp_core::serde_json::Value;

/// Script `secure_random` with every sequence over the reserved values and a
/// valid value (length <= 3, ending in the valid value) and look at the token
/// the acceptor puts on the wire.
fn reserved_tokens(run: &Arc<Run>) {
    let vals: [[u8; 4]; 3] = [[0xff; 4], [0; 4], [0x12, 0x34, 0x56, 0x78]];
    let mut scripts: Vec<Vec<[u8; 4]>> = Vec::new();
    for n in 0..3usize {
        // n reserved-or-valid values followed by the valid one
        let mut idx = vec![0usize; n];
        loop {
            let mut s: Vec<[u8; 4]> = idx.iter().map(|&i| vals[i]).collect();
            s.push(vals[2]);
            scripts.push(s);
            let mut k = 0;
            while k < n {
                idx[k] += 1;
                if idx[k] < 3 {
                    break;
                }
                idx[k] = 0;
                k += 1;
            }
            if k == n {
                break;
            }
        }
    }
    for script in scripts {
        // 0.6: acceptor answers a Connect that offers the token extension
        {
            run.add_evals(1);
            let mut e = libtw2_net::connection::Connection::new();
            let mut cb = Cb::new(1_000_000, [0; 4]);
            cb.random = script.clone();
            let mut ev = Vec::new();
            let mut w = Vec::new();
            let r = vp_core::catch(|| Ep::feed(&mut e, &mut cb, b"\x10\x00\x00\x01TKEN\xff\xff\xff\xff", &mut ev, &mut w));
            let tok = cb.out.first().and_then(|d| wire::info6(d, true)).and_then(|i| i.token);
            let bad = r.is_err() || tok.is_none() || tok == Some([0xff; 4]) || tok == Some([0; 4]);
            if bad {
                run.violation(
                    "v6t:c03:reserved-token-handed-out",
                    &format!("acceptor put token {:?} on the wire (random script {:?}, result {:?})", tok, script, r.err()),
                    json!({"random_script": script.iter().map(|t| vp_core::hex(t)).collect::<Vec<_>>(), "version": "0.6"}),
                );
            } else {
                run.class(&format!("reserved:v6:draws{}", cb.random_calls), || json!({"script": script.iter().map(|t| vp_core::hex(t)).collect::<Vec<_>>(), "token": vp_core::hex(&tok.unwrap())}));
            }
        }
        // 0.7: acceptor answers a token request; only ffffffff is reserved
        {
            run.add_evals(1);
            let mut e = libtw2_net::connection7::Connection::new();
            let mut cb = Cb::new(1_000_000, [0; 4]);
            cb.random = script.clone();
            let mut ev = Vec::new();
            let mut w = Vec::new();
            let mut req = vec![5u8, 0xc1, 0x1e, 0x27, 0x99];
            req.extend_from_slice(&[0u8; 512]);
            let d = wire::build7(wire::F7_CONTROL, 0, 0, &req, [0xff; 4], false).unwrap();
            let r = vp_core::catch(|| Ep::feed(&mut e, &mut cb, &d, &mut ev, &mut w));
            // the token the acceptor hands out is the response token in the payload
            let tok = cb.out.first().and_then(|d| wire::info7(d)).and_then(|i| {
                if i.payload.len() >= 5 && i.payload[0] == 5 {
                    Some([i.payload[1], i.payload[2], i.payload[3], i.payload[4]])
                } else {
                    None
                }
            });
            let bad = r.is_err() || tok.is_none() || tok == Some([0xff; 4]);
            if bad {
                run.violation(
                    "v7:c03:reserved-token-handed-out",
                    &format!("acceptor handed out token {:?} (random script {:?}, result {:?})", tok, script, r.err()),
                    json!({"random_script": script.iter().map(|t| vp_core::hex(t)).collect::<Vec<_>>(), "version": "0.7"}),
                );
            } else {
                run.class(&format!("reserved:v7:draws{}", cb.random_calls), || json!({"script": script.iter().map(|t| vp_core::hex(t)).collect::<Vec<_>>(), "token": vp_core::hex(&tok.unwrap())}));
            }
        }
    }
}

/// Token-VALUE sweep (the state exploration only offers a few dozen wrong tokens per state):
/// on both sides of an online pair, four kinds of datagram (keep-alive, close, a vital chunk
/// with the expected sequence number, connect) are fed with the agreed token XOR `d` for a
/// whole family of differences `d`. Every feed must be inert: no event, no reply, no random
/// draw, and the observable state unchanged.
fn token_sweep<E: Ep>(run: &Arc<Run>, variant: Variant) {
    use vp_core::rayon::prelude::*;
    let v7 = E::V7;
    let base = Pair::<E>::online(variant);
    let thorough = run.tier == Tier::Thorough;
    for side in 0..2usize {
        let view = base.ep[side].view(base.now);
        let t = match view.own_token {
            Some(Some(t)) => t,
            _ => vp_core::machinery_error("token sweep: online endpoint without a token"),
        };
        let o = view.online.as_ref().expect("online");
        let (expect_seq, ack_field) = ((o.ack + 1) % 1024, o.sequence);
        let fctl = if v7 { wire::F7_CONTROL } else { wire::F6_CONTROL };
        let bodies: Vec<(&str, u8, u8, Vec<u8>)> = vec![
            ("keepalive", fctl, 0, vec![0]),
            ("close", fctl, 0, b"\x04bye\0".to_vec()),
            ("vital-chunk", 0, 1, wire::chunk(v7, b"payload!", Some((expect_seq, false)))),
            ("connect", fctl, 0, if v7 { vec![1, 0x77, 0x66, 0x55, 0x44] } else { b"\x01TKEN\xff\xff\xff\xff".to_vec() }),
        ];
        // differences: one byte, two bytes, three bytes that cancel out under XOR, all bytes
        // equal, every rearrangement of the agreed token's own bytes; thorough: every three-byte
        // difference, every four-byte difference that cancels out under XOR or under addition
        let mut deltas: Vec<u32> = Vec::new();
        for pos in 0..4 {
            for a in 1..=255u32 {
                deltas.push(a << (8 * pos));
            }
        }
        for (p, q) in [(0, 1), (0, 2), (0, 3), (1, 2), (1, 3), (2, 3)] {
            for a in 1..=255u32 {
                for b in 1..=255u32 {
                    deltas.push(a << (8 * p) | b << (8 * q));
                }
            }
        }
        for skip in 0..4 {
            let pos: Vec<u32> = (0..4).filter(|x| *x != skip).collect();
            for a in 1..=255u32 {
                for b in 1..=255u32 {
                    if a != b {
                        deltas.push(a << (8 * pos[0]) | b << (8 * pos[1]) | (a ^ b) << (8 * pos[2]));
                    }
                }
            }
        }
        for a in 1..=255u32 {
            deltas.push(a * 0x0101_0101);
        }
        let idx = [0usize, 1, 2, 3];
        for a in idx {
            for b in idx {
                for c in idx {
                    for d in idx {
                        let x = [t[a], t[b], t[c], t[d]];
                        deltas.push(u32::from_le_bytes(x) ^ u32::from_le_bytes(t));
                    }
                }
            }
        }
        if thorough {
            for skip in 0..4 {
                let pos: Vec<u32> = (0..4).filter(|x| *x != skip).collect();
                for x in 0..(1u32 << 24) {
                    deltas.push((x & 0xff) << (8 * pos[0]) | ((x >> 8) & 0xff) << (8 * pos[1]) | (x >> 16) << (8 * pos[2]));
                }
            }
            for x in 0..(1u32 << 24) {
                let (a, b, c) = (x & 0xff, (x >> 8) & 0xff, x >> 16);
                deltas.push(a | b << 8 | c << 16 | (a ^ b ^ c) << 24);
                deltas.push(a | b << 8 | c << 16 | (0u32.wrapping_sub(a + b + c) & 0xff) << 24);
            }
        }
        deltas.retain(|d| *d != 0);
        deltas.sort_unstable();
        deltas.dedup();
        let tu = u32::from_le_bytes(t);
        for (name, flags, n, payload) in &bodies {
            let label = format!("token-values:{}:{}:{}", variant.name(), if side == 0 { "connecting" } else { "accepting" }, name);
            let bad = deltas
                .par_chunks(8192)
                .map(|chunk| -> Option<(String, String, Value)> {
                    let mut e = base.ep[side].vclone();
                    let before = format!("{:?}", e.view(base.now));
                    let mut cb = Cb::with_draws(base.now, RANDOM[side], base.draws[side]);
                    let calls0 = cb.random_calls;
                    let mut ev = Vec::new();
                    let mut warn = Vec::new();
                    for d in chunk {
                        let x = (tu ^ d).to_le_bytes();
                        let dg = if v7 { wire::build7(*flags, ack_field, *n, payload, x, false) } else { wire::build6(*flags, ack_field, *n, payload, Some(x), false) }.expect("fits");
                        warn.clear();
                        let r = vp_core::catch(|| e.feed(&mut cb, &dg, &mut ev, &mut warn));
                        let extra = || json!({"family": "token values", "variant": variant.name(), "side": side, "agreed_token": vp_core::hex(&t), "token_in_datagram": vp_core::hex(&x), "datagram": vp_core::hex(&dg), "kind": name});
                        if let Err(p) = r {
                            return Some((format!("c03:{}", vp_core::panic_sig(&p)), format!("feeding a datagram with a wrong token panics: {}", p), extra()));
                        }
                        if !ev.is_empty() {
                            return Some((format!("c03:event:Online:{}", name), format!("datagram with token {} instead of {} yields events {:?}", vp_core::hex(&x), vp_core::hex(&t), ev), extra()));
                        }
                        if !cb.out.is_empty() || !cb.all.is_empty() {
                            return Some((format!("c03:reply:Online:{}", name), format!("datagram with token {} instead of {} triggers a reply", vp_core::hex(&x), vp_core::hex(&t)), extra()));
                        }
                        if cb.random_calls != calls0 {
                            return Some((format!("c03:random:Online:{}", name), format!("datagram with token {} instead of {} makes the endpoint draw randomness", vp_core::hex(&x), vp_core::hex(&t)), extra()));
                        }
                    }
                    let after = format!("{:?}", e.view(base.now));
                    if after != before {
                        let x = (tu ^ chunk[0]).to_le_bytes();
                        return Some((format!("c03:state-change:Online:{}", name), format!("datagrams with wrong tokens (one of {} values starting at {}) change the state: {} -> {}", chunk.len(), vp_core::hex(&x), before, after), json!({"family": "token values", "variant": variant.name(), "side": side, "agreed_token": vp_core::hex(&t), "first_token_of_block": vp_core::hex(&x), "block": chunk.len(), "kind": name})));
                    }
                    None
                })
                .find_any(|x| x.is_some())
                .flatten();
            run.add_evals(deltas.len() as u64);
            match bad {
                None => run.class(&label, || json!({"wrong_tokens_fed": deltas.len()})),
                Some((sig, detail, extra)) => {
                    run.violation(&format!("{}:{}", variant.name(), sig), &detail, extra);
                }
            }
        }
    }
}

fn main() {
    let run = Run::new("C03", "model_checking");
    vp_net::maybe_replay(&run);
    reserved_tokens(&run);
    token_sweep::<libtw2_net::connection::Connection>(&run, Variant::V6T);
    token_sweep::<libtw2_net::connection7::Connection>(&run, Variant::V7);
    let mut outcomes = Vec::new();
    let mut cfgs: Vec<Cfg> = Vec::new();
    for v in [Variant::V6T, Variant::V7] {
        let base = Cfg { c03: true, c04: false, ..Cfg::base(v) };
        match run.tier {
            Tier::Quick => {
                cfgs.push(Cfg { vsends: [1, 0], drops: 1, dups: 1, advances: 2, ..base.clone() });
                cfgs.push(Cfg { vsends: [0, 1], nsends: [1, 0], drops: 1, dups: 0, advances: 1, ..base.clone() });
                cfgs.push(Cfg { vsends: [1, 1], nsends: [1, 0], disconnects: 1, drops: 0, dups: 0, advances: 0, ..base.clone() });
            }
            Tier::Thorough => {
                cfgs.push(Cfg { vsends: [2, 0], drops: 1, dups: 1, advances: 2, ..base.clone() });
                cfgs.push(Cfg { vsends: [1, 1], nsends: [1, 0], drops: 1, dups: 0, advances: 2, ..base.clone() });
                cfgs.push(Cfg { vsends: [1, 1], nsends: [1, 0], disconnects: 1, drops: 0, dups: 0, advances: 1, ..base.clone() });
            }
        }
    }
    for cfg in cfgs {
        let o = vp_net::explore_variant(cfg, &run, false);
        run.class(&format!("cfg:{}", o.label), || json!({"states": o.states, "stats": o.stats}));
        let stop = o.violated;
        outcomes.push(o);
        if stop {
            break;
        }
    }
    vp_net::record(&run, &outcomes);
    run.add_evals(outcomes.iter().map(|o| o.transitions).sum());
    run.assume("the classification 'carries exactly the agreed token' is done by an independent parser (doc/packet*.md + the bundled C++ Huffman reference); datagrams it cannot classify (0.6 connectionless; compressed bodies the reference rejects) are not judged");
    run.assume("0.6 without token extension has no token to protect and is not part of this property");
    run.finish(
        "explicit-state exploration of two real endpoints (0.6+token, 0.7); on every unique state and for each endpoint that has fixed a token, the whole foreign-datagram alphabet (every packet kind x wrong/absent tokens incl. all 32 single-bit flips, plain and compressed, every truncation and 5-value byte substitution of valid datagrams) is fed to a copy: no event, no outgoing datagram, no use of randomness, verif_view unchanged; plus a token-value sweep on both sides of an online pair: keep-alive / close / expected vital chunk / connect carrying the agreed token XOR d for every d with one or two non-zero bytes, three bytes that cancel out, four equal bytes, every rearrangement of the token's own bytes (thorough: every three-byte d and every four-byte d whose bytes cancel out under XOR or addition)",
        true,
    );
}
