//! C03: datagrams without the agreed token are inert. On every unique state
//! of the two-endpoint model in which an endpoint has fixed a token, every
//! datagram of the foreign alphabet is fed to a copy: no event, no reply, no
//! state change. Plus: tokens handed out by an acceptor are never reserved.

use std::sync::Arc;
use vp_core::serde_json::json;
use vp_core::Run;
use vp_core::Tier;
use vp_net::ep::Cb;
use vp_net::ep::Ep;
use vp_net::model::Cfg;
use vp_net::model::Variant;
use vp_net::wire;

/// Script `secure_random` with every sequence over the reserved values and a
/// valid value (length <= 3, ending in the valid value) and look at the token
/// the acceptor puts on the wire.
fn reserved_tokens(run: &Arc<Run>) {
    let vals: [[u8; 4]; 3] = [[0xff; 4], [0; 4], [0x12, 0x34, 0x56, 0x78]];
    let mut scripts: Vec<Vec<[u8; 4]>> = Vec::new();
    for n in 0..3usize {
        // n reserved-or-valid values followed by the valid one
        let mut idx = vec![0usize; n];
        loop {
            let mut s: Vec<[u8; 4]> = idx.iter().map(|&i| vals[i]).collect();
            s.push(vals[2]);
            scripts.push(s);
            let mut k = 0;
            while k < n {
                idx[k] += 1;
                if idx[k] < 3 {
                    break;
                }
                idx[k] = 0;
                k += 1;
            }
            if k == n {
                break;
            }
        }
    }
    for script in scripts {
        // 0.6: acceptor answers a Connect that offers the token extension
        {
            run.add_evals(1);
            let mut e = libtw2_net::connection::Connection::new();
            let mut cb = Cb::new(1_000_000, [0; 4]);
            cb.random = script.clone();
            let mut ev = Vec::new();
            let mut w = Vec::new();
            let r = vp_core::catch(|| Ep::feed(&mut e, &mut cb, b"\x10\x00\x00\x01TKEN\xff\xff\xff\xff", &mut ev, &mut w));
            let tok = cb.out.first().and_then(|d| wire::info6(d, true)).and_then(|i| i.token);
            let bad = r.is_err() || tok.is_none() || tok == Some([0xff; 4]) || tok == Some([0; 4]);
            if bad {
                run.violation(
                    "v6t:c03:reserved-token-handed-out",
                    &format!("acceptor put token {:?} on the wire (random script {:?}, result {:?})", tok, script, r.err()),
                    json!({"random_script": script.iter().map(|t| vp_core::hex(t)).collect::<Vec<_>>(), "version": "0.6"}),
                );
            } else {
                run.class(&format!("reserved:v6:draws{}", cb.random_calls), || json!({"script": script.iter().map(|t| vp_core::hex(t)).collect::<Vec<_>>(), "token": vp_core::hex(&tok.unwrap())}));
            }
        }
        // 0.7: acceptor answers a token request; only ffffffff is reserved
        {
            run.add_evals(1);
            let mut e = libtw2_net::connection7::Connection::new();
            let mut cb = Cb::new(1_000_000, [0; 4]);
            cb.random = script.clone();
            let mut ev = Vec::new();
            let mut w = Vec::new();
            let mut req = vec![5u8, 0xc1, 0x1e, 0x27, 0x99];
            req.extend_from_slice(&[0u8; 512]);
            let d = wire::build7(wire::F7_CONTROL, 0, 0, &req, [0xff; 4], false).unwrap();
            let r = vp_core::catch(|| Ep::feed(&mut e, &mut cb, &d, &mut ev, &mut w));
            // the token the acceptor hands out is the response token in the payload
            let tok = cb.out.first().and_then(|d| wire::info7(d)).and_then(|i| {
                if i.payload.len() >= 5 && i.payload[0] == 5 {
                    Some([i.payload[1], i.payload[2], i.payload[3], i.payload[4]])
                } else {
                    None
                }
            });
            let bad = r.is_err() || tok.is_none() || tok == Some([0xff; 4]);
            if bad {
                run.violation(
                    "v7:c03:reserved-token-handed-out",
                    &format!("acceptor handed out token {:?} (random script {:?}, result {:?})", tok, script, r.err()),
                    json!({"random_script": script.iter().map(|t| vp_core::hex(t)).collect::<Vec<_>>(), "version": "0.7"}),
                );
            } else {
                run.class(&format!("reserved:v7:draws{}", cb.random_calls), || json!({"script": script.iter().map(|t| vp_core::hex(t)).collect::<Vec<_>>(), "token": vp_core::hex(&tok.unwrap())}));
            }
        }
    }
}

fn main() {
    let run = Run::new("C03", "model_checking");
    vp_net::maybe_replay(&run);
    reserved_tokens(&run);
    let mut outcomes = Vec::new();
    let mut cfgs: Vec<Cfg> = Vec::new();
    for v in [Variant::V6T, Variant::V7] {
        let base = Cfg { c03: true, c04: false, ..Cfg::base(v) };
        match run.tier {
            Tier::Quick => {
                cfgs.push(Cfg { vsends: [1, 0], drops: 1, dups: 1, advances: 2, ..base.clone() });
                cfgs.push(Cfg { vsends: [0, 1], nsends: [1, 0], drops: 1, dups: 0, advances: 1, ..base.clone() });
                cfgs.push(Cfg { vsends: [1, 1], nsends: [1, 0], disconnects: 1, drops: 0, dups: 0, advances: 0, ..base.clone() });
            }
            Tier::Thorough => {
                cfgs.push(Cfg { vsends: [2, 0], drops: 1, dups: 1, advances: 2, ..base.clone() });
                cfgs.push(Cfg { vsends: [1, 1], nsends: [1, 0], drops: 1, dups: 0, advances: 2, ..base.clone() });
                cfgs.push(Cfg { vsends: [1, 1], nsends: [1, 0], disconnects: 1, drops: 0, dups: 0, advances: 1, ..base.clone() });
            }
        }
    }
    for cfg in cfgs {
        let o = vp_net::explore_variant(cfg, &run, false);
        run.class(&format!("cfg:{}", o.label), || json!({"states": o.states, "stats": o.stats}));
        let stop = o.violated;
        outcomes.push(o);
        if stop {
            break;
        }
    }
    vp_net::record(&run, &outcomes);
    run.add_evals(outcomes.iter().map(|o| o.transitions).sum());
    run.assume("the classification 'carries exactly the agreed token' is done by an independent parser (doc/packet*.md + the bundled C++ Huffman reference); datagrams it cannot classify (0.6 connectionless; compressed bodies the reference rejects) are not judged");
    run.assume("0.6 without token extension has no token to protect and is not part of this property");
    run.finish(
        "explicit-state exploration of two real endpoints (0.6+token, 0.7); on every unique state and for each endpoint that has fixed a token, the whole foreign-datagram alphabet (every packet kind x wrong/absent tokens incl. all 32 single-bit flips, plain and compressed, every truncation and 5-value byte substitution of valid datagrams) is fed to a copy: no event, no outgoing datagram, no use of randomness, verif_view unchanged",
        true,
    );
}
