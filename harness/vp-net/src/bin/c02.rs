//! C02: progress. (a) ranking by the fair suffix + deadline invariant on every
//! reachable state of the two-endpoint model; (b) size sweep: every accepted
//! payload length must be re-sendable after a loss (watchdog: every call
//! returns).

use std::sync::Arc;
use vp_core::serde_json::json;
use vp_core::Run;
use vp_core::Tier;
use vp_net::ep::Ep;
use vp_net::ep::Ev;
use vp_net::model::Cfg;
use vp_net::model::Variant;
use vp_net::pair::Pair;

fn scenario<E: Ep>(
    run: &Arc<Run>,
    variant: Variant,
    lens: &[usize],
    by_request: bool,
) -> Result<&'static str, (String, String)> {
    let desc = json!({"sweep": "resend", "variant": variant.name(), "lens": lens, "resend_triggered_by": if by_request {"peer resend request"} else {"timer"}});
    let d2 = desc.clone();
    let _g = run.watchdog.watch(Arc::new(move || d2.clone()));
    let r = vp_core::catch(|| -> Result<&'static str, (String, String)> {
        let mut p = Pair::<E>::online(variant);
        let mut accepted = Vec::new();
        for (i, &l) in lens.iter().enumerate() {
            let data = vp_net::model::payload(0, true, i, l);
            let ok = p.with(0, |e, cb| e.send(cb, &data, true));
            if ok {
                accepted.push(data);
            }
        }
        if accepted.is_empty() {
            return Ok("refused");
        }
        p.with(0, |e, cb| e.flush(cb));
        // the network loses everything the client sent
        let lost = p.net[1].len();
        p.net[1].clear();
        if lost == 0 {
            return Err(("c02:flush-sends-nothing".into(), "flush emitted no datagram".into()));
        }
        if by_request {
            // the server notices a gap: feed it a chunk with a future
            // sequence number so that it requests a resend
            let n = accepted.len();
            let extra = vp_net::model::payload(0, true, n, 5);
            assert!(p.with(0, |e, cb| e.send(cb, &extra, true)));
            p.with(0, |e, cb| e.flush(cb));
            accepted.push(extra);
            let evs = p.settle();
            if evs[1].iter().any(|e| matches!(e, Ev::Chunk(_, true))) && n > 0 {
                // the extra chunk alone cannot be delivered before the lost ones
                return Err(("c02:future-chunk-delivered".into(), "chunk after a gap was delivered".into()));
            }
            // server flushes its resend request at its next tick
            p.advance(500_000);
            p.tick_due();
        } else {
            p.advance(1_000_000);
            p.tick_due();
        }
        let mut got = Vec::new();
        for _ in 0..8 {
            let evs = p.settle();
            for e in &evs[1] {
                if let Ev::Chunk(d, true) = e {
                    got.push(d.clone());
                }
            }
            if got.len() >= accepted.len() {
                break;
            }
            p.advance(500_000);
            p.tick_due();
        }
        if got != accepted {
            return Err((
                "c02:lost-chunks-not-recovered".into(),
                format!("{} of {} vital chunks arrived after the loss", got.len(), accepted.len()),
            ));
        }
        // progress also means that the sender learns about it: once the acknowledgement has
        // travelled back nothing stays queued for retransmission
        let mut drained = false;
        for _ in 0..8 {
            p.settle();
            let q = p.ep[0].view(p.now).online.as_ref().map(|o| o.resend_queue.len()).unwrap_or(0);
            if q == 0 {
                drained = true;
                break;
            }
            p.advance(500_000);
            p.tick_due();
        }
        if !drained {
            return Err((
                "c02:delivered-chunks-stay-queued".into(),
                format!("all {} chunks arrived, but the sender still keeps chunks queued for retransmission after 4 more seconds of fair network", accepted.len()),
            ));
        }
        Ok("recovered")
    });
    match r {
        Ok(x) => x,
        Err(p) => Err((vp_core::panic_sig(&p), format!("panic: {}", p))),
    }
    .map_err(|(s, d)| (format!("{}:{}", variant.name(), s), format!("{} [{}]", d, desc)))
}

fn sweep(run: &Arc<Run>, variant: Variant) {
    let boundary: Vec<usize> = vec![
        0, 1, 15, 16, 63, 64, 700, 1021, 1022, 1023, 1024, 1380, 1381, 1382, 1383, 1384, 1385, 1386, 1387, 1388,
        1389, 1390,
    ];
    let mut cases: Vec<(Vec<usize>, bool)> = Vec::new();
    for l in 0..=1391 {
        cases.push((vec![l], false));
    }
    for &a in &boundary {
        for &b in &boundary {
            cases.push((vec![a, b], false));
            cases.push((vec![a, b], true));
        }
        cases.push((vec![a], true));
    }
    // backlogs: n small vital chunks whose first transmission is lost altogether, on both sides of
    // the 8-bit chunk counter, of half the sequence space (512) and close to all of it
    for n in [100usize, 255, 256, 300, 510, 511, 512, 513, 600, 1000, 1022] {
        cases.push((vec![1; n], false));
        cases.push((vec![1; n], true));
    }
    for (lens, by_request) in cases {
        run.add_evals(1);
        let r = match variant {
            Variant::V7 => scenario::<libtw2_net::connection7::Connection>(run, variant, &lens, by_request),
            _ => scenario::<libtw2_net::connection::Connection>(run, variant, &lens, by_request),
        };
        match r {
            Ok(class) => run.class(
                &format!("sweep:{}:{}:{}:{}", variant.name(), class, lens.len(), by_request),
                || json!({"lens": if lens.len() > 8 { json!(format!("{} x {}", lens.len(), lens[0])) } else { json!(lens) }, "by_request": by_request}),
            ),
            Err((sig, detail)) => {
                run.violation(&sig, &detail, json!({"sweep": "resend", "variant": variant.name(), "lens": if lens.len() > 8 { json!(format!("{} x {}", lens.len(), lens[0])) } else { json!(lens) }, "by_request": by_request}));
            }
        }
    }
}

fn main() {
    let run = Run::new("C02", "model_checking");
    vp_net::maybe_replay(&run);
    let mut outcomes = Vec::new();
    let variants = [Variant::V6T, Variant::V6N, Variant::V7];
    for v in variants {
        sweep(&run, v);
    }
    let mut cfgs: Vec<Cfg> = Vec::new();
    for v in variants {
        let base = Cfg { c02: true, ..Cfg::base(v) };
        match run.tier {
            Tier::Quick => {
                cfgs.push(Cfg { vsends: [2, 0], drops: 1, dups: 1, ..base.clone() });
                cfgs.push(Cfg { vsends: [1, 1], nsends: [1, 0], drops: 1, dups: 0, advances: 2, ..base.clone() });
                // after 1023 chunks each way the 10-bit sequence numbers have come round: the
                // next chunk carries a smaller number than the acknowledgements still in flight
                cfgs.push(Cfg { prefix_chunks: 1023, vsends: [1, 0], nsends: [0, 1], drops: 1, dups: 0, advances: 2, ..base.clone() });
                // the environment refuses one datagram (a transient socket error): the call reports
                // it, and progress must not depend on that datagram
                cfgs.push(Cfg { faults: 1, vsends: [1, 0], nsends: [0, 1], drops: 0, dups: 0, advances: 3, ..base.clone() });
            }
            Tier::Thorough => {
                cfgs.push(Cfg { vsends: [3, 0], drops: 1, dups: 1, ..base.clone() });
                cfgs.push(Cfg { vsends: [2, 0], drops: 2, dups: 1, advances: 3, ..base.clone() });
                cfgs.push(Cfg { vsends: [1, 2], nsends: [1, 0], drops: 1, dups: 1, advances: 2, ..base.clone() });
                cfgs.push(Cfg { prefix_chunks: 1023, vsends: [1, 1], nsends: [0, 1], drops: 1, dups: 1, advances: 2, ..base.clone() });
                cfgs.push(Cfg { prefix_chunks: 1022, vsends: [2, 0], nsends: [0, 1], drops: 2, dups: 0, advances: 2, ..base.clone() });
                cfgs.push(Cfg { faults: 2, vsends: [1, 1], nsends: [0, 1], drops: 1, dups: 0, advances: 3, ..base.clone() });
            }
        }
    }
    for cfg in cfgs {
        let dfs = run.tier == Tier::Thorough && cfg.vsends[0] + cfg.vsends[1] >= 3;
        let o = vp_net::explore_variant(cfg, &run, dfs);
        run.class(&format!("cfg:{}", o.label), || json!({"states": o.states}));
        let stop = o.violated;
        outcomes.push(o);
        if stop {
            break;
        }
    }
    // The deadline of the multi-peer endpoint (`Net::needs_tick`, anchored in net.rs): in every
    // reachable state of a real Net with two or three addresses it must be the earliest deadline
    // of the per-address reference connections (whose own deadlines the invariant above covers),
    // also while a connection request is left undecided and while peers come and go.
    if run.num_violations() == 0 {
        use vp_net::netmodel::NCfg;
        let nbase = NCfg { accepting: true, addrs: 2, remote_sends: 1, net_sends: 1, drops: 0, advances: 1, garbage: 0, net_connects: 0, disconnects: 0, cap: 3, start_peer_id: 0, defer: false, wraps: 0, send_faults: false };
        let ncfgs = match run.tier {
            Tier::Quick => vec![
                NCfg { defer: true, addrs: 2, remote_sends: 0, net_sends: 1, advances: 2, ..nbase.clone() },
                NCfg { ..nbase.clone() },
            ],
            Tier::Thorough => vec![
                NCfg { defer: true, addrs: 3, remote_sends: 0, net_sends: 1, advances: 2, ..nbase.clone() },
                NCfg { defer: true, addrs: 2, remote_sends: 1, net_sends: 1, advances: 2, disconnects: 1, ..nbase.clone() },
                NCfg { addrs: 2, remote_sends: 1, net_sends: 1, drops: 1, advances: 2, ..nbase.clone() },
            ],
        };
        for cfg in ncfgs {
            let o = vp_net::explore_net_mode(cfg, &run, run.tier == Tier::Thorough);
            run.class(&format!("cfg:net:{}", o.label), || json!({"states": o.states}));
            let stop = o.violated;
            outcomes.push(o);
            if stop {
                break;
            }
        }
    }
    vp_net::record(&run, &outcomes);
    run.add_evals(outcomes.iter().map(|o| o.transitions).sum());
    run.assume("fair suffix = every in-flight datagram delivered once per round, both sides tick when their reported deadline has passed; bound 24 rounds / 12 s simulated");
    run.finish(
        "explicit-state exploration of two real endpoints; on every unique state the deadline invariant is checked and the fair suffix is executed on the real objects until the goal (ready, all vital chunks delivered and acked, nothing queued), including configurations that start after 1022/1023 chunks each way so that the 10-bit sequence numbers come round while chunks and acknowledgements are in flight; plus a sweep over every payload length 0..1391 and boundary pairs with loss + resend under a wall-clock watchdog; plus the multi-peer endpoint: in every reachable state of a real Net (two or three addresses, undecided connection requests, disconnects) Net::needs_tick equals the earliest deadline of the per-address reference connections",
        true,
    );
}
