pub mod ep;
pub mod foreign;
pub mod model;
pub mod netmodel;
pub mod pair;
pub mod wire;

use crate::ep::Ep;
use crate::model::path_json;
use crate::model::Cfg;
use crate::model::NetModel;
use crate::model::Variant;
use libtw2_net::connection as c6;
use libtw2_net::connection7 as c7;
use serde_json::json;
use serde_json::Value;
use stateright::Checker;
use stateright::Model;
use std::sync::atomic::Ordering;
use std::sync::Arc;
use std::time::Instant;
use vp_core::Run;

#[derive(Clone, Debug, Default)]
pub struct Outcome {
    pub label: String,
    pub states: u64,
    pub transitions: u64,
    pub suffix_and_sweep_calls: u64,
    pub max_depth: u64,
    pub validated: u64,
    pub wall_s: f64,
    pub violated: bool,
    pub stats: Value,
    pub sample_paths: Vec<Value>,
}

pub fn threads() -> usize {
    std::env::var("VERIF_THREADS")
        .ok()
        .and_then(|s| s.parse().ok())
        .unwrap_or_else(|| std::thread::available_parallelism().map(|n| n.get()).unwrap_or(8))
}

pub fn cfg_timeout() -> std::time::Duration {
    std::time::Duration::from_secs(
        std::env::var("VERIF_CFG_TIMEOUT_S").ok().and_then(|s| s.parse().ok()).unwrap_or(1500),
    )
}

pub fn explore_variant(cfg: Cfg, run: &Arc<Run>, dfs: bool) -> Outcome {
    match cfg.variant {
        Variant::V7 => explore::<c7::Connection>(cfg, run, dfs),
        _ => explore::<c6::Connection>(cfg, run, dfs),
    }
}

pub fn explore<E: Ep>(cfg: Cfg, run: &Arc<Run>, dfs: bool) -> Outcome {
    let t0 = Instant::now();
    let model = NetModel::<E>::new(cfg, run.clone());
    let before = run.num_violations();
    let limit = cfg_timeout();
    let builder = model.checker().threads(threads()).timeout(limit);
    let o = if dfs {
        after(builder.spawn_dfs().join(), run, before, t0)
    } else {
        after(builder.spawn_bfs().join(), run, before, t0)
    };
    if t0.elapsed() >= limit {
        run.cap(&format!("configuration {} stopped by the {} s wall-time cap before the space was exhausted", o.label, limit.as_secs()));
    }
    o
}

fn after<E: Ep, C: Checker<NetModel<E>>>(
    c: C,
    run: &Arc<Run>,
    before: usize,
    t0: Instant,
) -> Outcome {
    let states = c.unique_state_count() as u64;
    let generated = c.state_count() as u64;
    let max_depth = c.max_depth() as u64;
    let model = c.model();
    let label = model.cfg.label();
    let stats = model.stats.clone();
    let violated = run.num_violations() > before;
    // Replay validation: re-execute recorded action paths from the initial
    // state, twice, and require the same state key as during exploration.
    let mut validated = 0u64;
    let mut sample_paths = Vec::new();
    if !violated {
        let samples = model.samples.lock().unwrap();
        for s in samples.iter() {
            for round in 0..2 {
                match model.replay(&s.path) {
                    Some(st) if st.key64() == s.key => {}
                    other => vp_core::machinery_error(&format!(
                        "replay divergence (round {}) in {}: path {:?} reached {:?} instead of key {:x}",
                        round,
                        label,
                        path_json(&s.path),
                        other.map(|s| s.key64()),
                        s.key
                    )),
                }
            }
            validated += 1;
            if sample_paths.len() < 3 && s.path.len() >= 4 {
                sample_paths.push(json!({"cfg": label, "actions": path_json(&s.path)}));
            }
        }
    }
    let st = json!({
        "real_calls_total": stats.transitions.load(Ordering::Relaxed),
        "datagrams_refused_by_the_environment": stats.refused_datagrams.load(Ordering::Relaxed),
        "max_rank_rounds": stats.max_rank.load(Ordering::Relaxed),
        "ranked_states": stats.rank_states.load(Ordering::Relaxed),
        "c03_states_swept": stats.c03_states.load(Ordering::Relaxed),
        "c03_foreign_feeds": stats.c03_feeds.load(Ordering::Relaxed),
        "c03_skipped_carrying_agreed_token": stats.c03_skipped_carrying_token.load(Ordering::Relaxed),
        "c04_datagrams_checked": stats.c04_datagrams.load(Ordering::Relaxed),
        "c04_compressed_datagrams": stats.c04_compressed.load(Ordering::Relaxed),
        "c04_chunks_checked": stats.c04_chunks.load(Ordering::Relaxed),
        "vital_deliveries_from_client": stats.chunks_delivered[0].load(Ordering::Relaxed),
        "vital_deliveries_from_server": stats.chunks_delivered[1].load(Ordering::Relaxed),
        "nonvital_deliveries_from_client": stats.nonvital_delivered[0].load(Ordering::Relaxed),
        "nonvital_deliveries_from_server": stats.nonvital_delivered[1].load(Ordering::Relaxed),
        "ready_events": stats.ready_events.load(Ordering::Relaxed),
        "chunks_with_resend_flag": stats.resend_flag_chunks.load(Ordering::Relaxed),
        "states_both_online": stats.both_online_states.load(Ordering::Relaxed),
    });
    let o = Outcome {
        label: label.clone(),
        states,
        transitions: generated,
        suffix_and_sweep_calls: stats.transitions.load(Ordering::Relaxed),
        max_depth,
        validated,
        wall_s: t0.elapsed().as_secs_f64(),
        violated,
        stats: st,
        sample_paths,
    };
    println!(
        "  [{}] states={} transitions={} depth={} validated={} {:.1}s{}",
        o.label,
        o.states,
        o.transitions,
        o.max_depth,
        o.validated,
        o.wall_s,
        if violated { " VIOLATED" } else { "" }
    );
    o
}

/// Accumulate outcomes into the run's evidence.
pub fn record(run: &Arc<Run>, outcomes: &[Outcome]) {
    let states: u64 = outcomes.iter().map(|o| o.states).sum();
    let transitions: u64 = outcomes.iter().map(|o| o.transitions).sum();
    let validated: u64 = outcomes.iter().map(|o| o.validated).sum();
    run.set("states", json!(states));
    run.set("transitions", json!(transitions));
    run.set("traces_validated_against_impl", json!(validated));
    run.set(
        "configurations",
        json!(outcomes
            .iter()
            .map(|o| json!({
                "cfg": o.label,
                "states": o.states,
                "transitions": o.transitions,
                "max_depth": o.max_depth,
                "replayed_paths": o.validated,
                "wall_s": o.wall_s,
                "stats": o.stats,
            }))
            .collect::<Vec<_>>()),
    );
    let mut samples: Vec<Value> = Vec::new();
    for o in outcomes {
        for s in &o.sample_paths {
            if samples.len() < 12 {
                samples.push(s.clone());
            }
        }
    }
    if samples.is_empty() {
        samples.push(json!("no sampled path (violation before sampling)"));
    }
    run.set("samples", json!(samples));
}

pub fn explore_net(cfg: netmodel::NCfg, run: &Arc<Run>) -> Outcome {
    explore_net_mode(cfg, run, false)
}

/// `dfs`: depth-first search (every state owns clones of the real Net and connections; DFS keeps
/// far fewer alive at once - used for the large thorough configurations).
pub fn explore_net_mode(cfg: netmodel::NCfg, run: &Arc<Run>, dfs: bool) -> Outcome {
    let t0 = Instant::now();
    let model = netmodel::NetM::new(cfg, run.clone());
    let before = run.num_violations();
    let limit = cfg_timeout();
    let builder = model.checker().threads(threads()).timeout(limit);
    if dfs {
        after_net(builder.spawn_dfs().join(), run, before, t0, limit)
    } else {
        after_net(builder.spawn_bfs().join(), run, before, t0, limit)
    }
}

fn after_net<C: Checker<netmodel::NetM>>(c: C, run: &Arc<Run>, before: usize, t0: Instant, limit: std::time::Duration) -> Outcome {
    if t0.elapsed() >= limit {
        run.cap(&format!("configuration stopped by the {} s wall-time cap before the space was exhausted", limit.as_secs()));
    }
    let states = c.unique_state_count() as u64;
    let generated = c.state_count() as u64;
    let max_depth = c.max_depth() as u64;
    let model = c.model();
    let label = model.cfg.label();
    let violated = run.num_violations() > before;
    let mut validated = 0u64;
    let mut sample_paths = Vec::new();
    if !violated {
        let samples = model.samples.lock().unwrap();
        for s in samples.iter() {
            for round in 0..2 {
                match model.replay(&s.path) {
                    Some(st) if st.key64() == s.key => {}
                    other => vp_core::machinery_error(&format!(
                        "replay divergence (round {}) in {}: path {:?} reached {:?} instead of key {:x}",
                        round,
                        label,
                        s.path.iter().map(|a| a.render()).collect::<Vec<_>>(),
                        other.map(|s| s.key64()),
                        s.key
                    )),
                }
            }
            validated += 1;
            if sample_paths.len() < 3 && s.path.len() >= 5 {
                sample_paths.push(json!({"cfg": label, "actions": s.path.iter().map(|a| a.render()).collect::<Vec<_>>()}));
            }
        }
    }
    let st = &model.stats;
    let stats = json!({
        "real_calls_total": st.calls.load(Ordering::Relaxed),
        "steps_compared_with_reference": st.compared_steps.load(Ordering::Relaxed),
        "datagrams_compared": st.datagrams_compared.load(Ordering::Relaxed),
        "connect_events": st.connect_events.load(Ordering::Relaxed),
        "chunk_events": st.chunk_events.load(Ordering::Relaxed),
        "ready_events": st.ready_events.load(Ordering::Relaxed),
        "disconnect_events": st.disconnect_events.load(Ordering::Relaxed),
        "max_live_peers": st.max_live_peers.load(Ordering::Relaxed),
    });
    let o = Outcome {
        label: label.clone(),
        states,
        transitions: generated,
        suffix_and_sweep_calls: st.calls.load(Ordering::Relaxed),
        max_depth,
        validated,
        wall_s: t0.elapsed().as_secs_f64(),
        violated,
        stats,
        sample_paths,
    };
    println!(
        "  [{}] states={} transitions={} depth={} validated={} {:.1}s{}",
        o.label, o.states, o.transitions, o.max_depth, o.validated, o.wall_s,
        if violated { " VIOLATED" } else { "" }
    );
    o
}

/// `./run <id> replay <file>`: re-execute a recorded action list on the real
/// objects without the explorer, printing every step. Exit 1 if the violation
/// is reproduced, 0 if not.
pub fn replay_file(run: &Arc<Run>, path: &str) -> ! {
    let text = std::fs::read_to_string(path).unwrap_or_else(|e| vp_core::machinery_error(&format!("cannot read {}: {}", path, e)));
    let v: Value = serde_json::from_str(&text).unwrap_or_else(|e| vp_core::machinery_error(&format!("{} is not JSON: {}", path, e)));
    let case = &v["case"];
    if case["model"] != "two-endpoints" {
        println!("replay file is not an action list of the two-endpoint model; case:\n{}", serde_json::to_string_pretty(case).unwrap());
        vp_core::machinery_error("this check replays only two-endpoint action lists; re-run the check to re-evaluate other cases");
    }
    let cfg = Cfg::from_json(&case["cfg_json"]).unwrap_or_else(|| vp_core::machinery_error("replay file has no usable cfg_json"));
    let acts: Vec<model::Act> = case["actions"]
        .as_array()
        .unwrap_or_else(|| vp_core::machinery_error("no actions"))
        .iter()
        .map(|a| model::Act::parse(a.as_str().unwrap_or("")).unwrap_or_else(|| vp_core::machinery_error(&format!("cannot parse action {}", a))))
        .collect();
    fn go<E: Ep>(cfg: Cfg, run: &Arc<Run>, acts: &[model::Act]) -> bool {
        let m = NetModel::<E>::new(cfg, run.clone());
        let mut s = m.init.clone();
        println!("initial: {}", s.summary());
        for a in acts {
            let mut en = Vec::new();
            m.actions(&s, &mut en);
            if !en.contains(a) {
                println!("  action {} is not enabled here (enabled: {:?})", a.render(), en.iter().map(|x| x.render()).collect::<Vec<_>>());
                return false;
            }
            match m.apply(&s, *a) {
                Some(n) => s = n,
                None => {
                    println!("  {} -> known finding, branch pruned", a.render());
                    return true;
                }
            }
            println!("  {:<28} -> {}{}", a.render(), s.summary(), if s.bad { "  ** VIOLATION **" } else { "" });
            if s.bad {
                return true;
            }
        }
        !m.check_state(&s)
    }
    let reproduced = match cfg.variant {
        Variant::V7 => go::<c7::Connection>(cfg, run, &acts),
        _ => go::<c6::Connection>(cfg, run, &acts),
    };
    println!("{}", if reproduced { "REPRODUCED" } else { "NOT REPRODUCED on the current tree" });
    std::process::exit(if reproduced { 1 } else { 0 });
}

pub fn maybe_replay(run: &Arc<Run>) {
    let args: Vec<String> = std::env::args().collect();
    if args.get(1).map(|s| s.as_str()) == Some("replay") {
        match args.get(2) {
            Some(f) => replay_file(run, f),
            None => vp_core::machinery_error("usage: replay <file>"),
        }
    }
}
