//! Uniform driver interface over the two real connection implementations
//! (`libtw2_net::connection::Connection` = 0.6/DDNet,
//! `libtw2_net::connection7::Connection` = 0.7). Every source of
//! nondeterminism of the connection layer goes through `Cb`.

use libtw2_net::connection as c6;
use libtw2_net::connection7 as c7;
use libtw2_net::protocol as p6;
use libtw2_net::protocol7 as p7;
use libtw2_net::verif::ConnView;
use libtw2_net::Timestamp;
use libtw2_warn::Warn;

/// The callback the harness owns: clock, randomness, wire.
pub struct Cb {
    pub now: u64,
    pub out: Vec<Vec<u8>>,
    /// Values handed out by `secure_random`, cycled.
    pub random: Vec<[u8; 4]>,
    pub random_calls: usize,
    /// the environment refuses this many datagrams (a transient socket error): the call
    /// that tried to send gets the error, the datagram is lost
    pub fail_sends: u8,
    /// datagrams the environment refused, and everything handed to `send` in order
    /// (datagram, delivered?)
    pub all: Vec<(Vec<u8>, bool)>,
    /// errors the library reported back to the caller
    pub errors: u32,
}

/// The environment's send error.
#[derive(Debug)]
pub struct SendErr;

impl Cb {
    pub fn new(now: u64, random: [u8; 4]) -> Cb {
        Cb {
            now,
            out: Vec::new(),
            random: vec![random],
            random_calls: 0,
            fail_sends: 0,
            all: Vec::new(),
            errors: 0,
        }
    }
    /// Randomness that differs from draw to draw: the k-th draw of an endpoint
    /// (k = `drawn` so far) yields `base` with its last byte advanced by k, so
    /// that "a fresh random value" is really different from the previous one.
    pub fn with_draws(now: u64, base: [u8; 4], drawn: u8) -> Cb {
        let random = (0..8u8).map(|i| [base[0], base[1], base[2], base[3].wrapping_add(drawn.wrapping_add(i).wrapping_mul(17))]).collect();
        Cb {
            now,
            out: Vec::new(),
            random,
            random_calls: 0,
            fail_sends: 0,
            all: Vec::new(),
            errors: 0,
        }
    }
    fn snd(&mut self, buffer: &[u8]) -> Result<(), SendErr> {
        if self.fail_sends > 0 {
            self.fail_sends -= 1;
            self.all.push((buffer.to_vec(), false));
            return Err(SendErr);
        }
        self.all.push((buffer.to_vec(), true));
        self.out.push(buffer.to_vec());
        Ok(())
    }
    fn rnd(&mut self, buffer: &mut [u8]) {
        let v = self.random[self.random_calls % self.random.len()];
        self.random_calls += 1;
        for (i, b) in buffer.iter_mut().enumerate() {
            *b = v[i % 4];
        }
    }
}

impl c6::Callback for Cb {
    type Error = SendErr;
    fn secure_random(&mut self, buffer: &mut [u8]) {
        self.rnd(buffer)
    }
    fn send(&mut self, buffer: &[u8]) -> Result<(), SendErr> {
        self.snd(buffer)
    }
    fn time(&mut self) -> Timestamp {
        Timestamp::from_usecs_since_epoch(self.now)
    }
}

impl c7::Callback for Cb {
    type Error = SendErr;
    fn secure_random(&mut self, buffer: &mut [u8]) {
        self.rnd(buffer)
    }
    fn send(&mut self, buffer: &[u8]) -> Result<(), SendErr> {
        self.snd(buffer)
    }
    fn time(&mut self) -> Timestamp {
        Timestamp::from_usecs_since_epoch(self.now)
    }
}

#[derive(Clone, Debug, Eq, Hash, PartialEq)]
pub enum Ev {
    Connless(Vec<u8>),
    Chunk(Vec<u8>, bool),
    Ready,
    Disconnect(Vec<u8>),
}

struct WarnStr<'a>(&'a mut Vec<String>);
impl<'a, W: std::fmt::Debug> Warn<W> for WarnStr<'a> {
    fn warn(&mut self, w: W) {
        self.0.push(format!("{:?}", w));
    }
}

/// One chunk as seen by the library's own reader.
#[derive(Clone, Debug, Eq, PartialEq)]
pub struct WChunk {
    pub data: Vec<u8>,
    pub vital: Option<(u16, bool)>,
}

/// A datagram parsed by the library's own reader (used by the C04 monitor,
/// where the property is phrased in terms of that reader).
#[derive(Clone, Debug, Eq, PartialEq)]
pub enum WPacket {
    Connless(Vec<u8>),
    Control {
        ack: u16,
        name: &'static str,
    },
    Chunks {
        ack: u16,
        request_resend: bool,
        num_chunks: u8,
        chunks: Vec<WChunk>,
    },
}

#[derive(Clone, Debug)]
pub struct WRead {
    pub packet: Result<WPacket, String>,
    pub warnings: Vec<String>,
}

pub trait Ep: Sized + Send + Sync + 'static {
    const V7: bool;
    const NAME: &'static str;
    const ONLINE: u8;
    const MAX_PAYLOAD: usize;
    fn new() -> Self;
    fn vclone(&self) -> Self;
    fn view(&self, now: u64) -> ConnView;
    /// Absolute deadline in microseconds.
    fn needs_tick(&self) -> Option<u64>;
    fn connect(&mut self, cb: &mut Cb);
    /// true = Ok, false = TooLongData
    fn send(&mut self, cb: &mut Cb, data: &[u8], vital: bool) -> bool;
    fn send_connless(&mut self, cb: &mut Cb, data: &[u8]) -> bool;
    fn flush(&mut self, cb: &mut Cb);
    fn tick(&mut self, cb: &mut Cb);
    fn disconnect(&mut self, cb: &mut Cb, reason: &[u8]);
    fn feed(&mut self, cb: &mut Cb, data: &[u8], ev: &mut Vec<Ev>, warn: &mut Vec<String>);
    /// Read a datagram with the library's own reader. `token` tells the 0.6
    /// reader the true token mode; ignored for 0.7.
    fn read(data: &[u8], token: Option<bool>) -> WRead;
}

fn ts(t: libtw2_net::Timeout) -> Option<u64> {
    t.to_opt().map(|t| t.as_usecs_since_epoch())
}

macro_rules! common_impl {
    ($c:ident) => {
        fn new() -> Self {
            $c::Connection::new()
        }
        fn vclone(&self) -> Self {
            self.verif_clone()
        }
        fn view(&self, now: u64) -> ConnView {
            self.verif_view(Timestamp::from_usecs_since_epoch(now))
        }
        fn needs_tick(&self) -> Option<u64> {
            ts($c::Connection::needs_tick(self))
        }
        fn connect(&mut self, cb: &mut Cb) {
            match $c::Connection::connect(self, cb) {
                Ok(()) => {}
                Err(SendErr) => cb.errors += 1,
            }
        }
        fn send(&mut self, cb: &mut Cb, data: &[u8], vital: bool) -> bool {
            match $c::Connection::send(self, cb, data, vital) {
                Ok(()) => true,
                Err($c::Error::TooLongData) => false,
                // the chunk is queued / the call took effect; the environment's error is reported
                Err($c::Error::Callback(SendErr)) => {
                    cb.errors += 1;
                    true
                }
            }
        }
        fn send_connless(&mut self, cb: &mut Cb, data: &[u8]) -> bool {
            match $c::Connection::send_connless(self, cb, data) {
                Ok(()) => true,
                Err($c::Error::TooLongData) => false,
                // the chunk is queued / the call took effect; the environment's error is reported
                Err($c::Error::Callback(SendErr)) => {
                    cb.errors += 1;
                    true
                }
            }
        }
        fn flush(&mut self, cb: &mut Cb) {
            match $c::Connection::flush(self, cb) {
                Ok(()) => {}
                Err(SendErr) => cb.errors += 1,
            }
        }
        fn tick(&mut self, cb: &mut Cb) {
            match $c::Connection::tick(self, cb) {
                Ok(()) => {}
                Err(SendErr) => cb.errors += 1,
            }
        }
        fn disconnect(&mut self, cb: &mut Cb, reason: &[u8]) {
            match $c::Connection::disconnect(self, cb, reason) {
                Ok(()) => {}
                Err(SendErr) => cb.errors += 1,
            }
        }
        fn feed(&mut self, cb: &mut Cb, data: &[u8], ev: &mut Vec<Ev>, warn: &mut Vec<String>) {
            let mut buf = [0u8; 1400]; // MAX_PACKETSIZE: what the callers in the repository pass, the minimum accepted
            let (packet, res) =
                $c::Connection::feed(self, cb, &mut WarnStr(warn), data, &mut buf[..]);
            match res {
                Ok(()) => {}
                Err(SendErr) => cb.errors += 1,
            }
            // The application drains every event iterator (assumption of C01).
            for e in packet {
                ev.push(match e {
                    $c::ReceiveChunk::Connless(d) => Ev::Connless(d.to_vec()),
                    $c::ReceiveChunk::Connected(d, v) => Ev::Chunk(d.to_vec(), v),
                    $c::ReceiveChunk::Ready => Ev::Ready,
                    $c::ReceiveChunk::Disconnect(r) => Ev::Disconnect(r.to_vec()),
                });
            }
        }
    };
}

impl Ep for c6::Connection {
    const V7: bool = false;
    const NAME: &'static str = "v6";
    const ONLINE: u8 = 3;
    const MAX_PAYLOAD: usize = p6::MAX_PAYLOAD;
    common_impl!(c6);
    fn read(data: &[u8], token: Option<bool>) -> WRead {
        let mut warnings = Vec::new();
        let mut buf = [0u8; 1400]; // MAX_PACKETSIZE: what the callers in the repository pass, the minimum accepted
        let packet = match p6::Packet::read(&mut WarnStr(&mut warnings), data, token, &mut buf[..])
        {
            Err(e) => Err(format!("{:?}", e)),
            Ok(p6::Packet::Connless(d)) => Ok(WPacket::Connless(d.to_vec())),
            Ok(p6::Packet::Connected(p6::ConnectedPacket { ack, type_, .. })) => Ok(match type_ {
                p6::ConnectedPacketType::Control(c) => WPacket::Control {
                    ack,
                    name: match c {
                        p6::ControlPacket::KeepAlive => "KeepAlive",
                        p6::ControlPacket::Connect => "Connect",
                        p6::ControlPacket::ConnectAccept => "ConnectAccept",
                        p6::ControlPacket::Accept => "Accept",
                        p6::ControlPacket::Close(_) => "Close",
                    },
                },
                p6::ConnectedPacketType::Chunks(request_resend, num_chunks, payload) => {
                    let mut it = p6::ChunksIter::new(payload, num_chunks);
                    let mut chunks = Vec::new();
                    while let Some(c) = it.next_warn(&mut WarnStr(&mut warnings)) {
                        chunks.push(WChunk {
                            data: c.data.to_vec(),
                            vital: c.vital,
                        });
                    }
                    WPacket::Chunks {
                        ack,
                        request_resend,
                        num_chunks,
                        chunks,
                    }
                }
            }),
        };
        WRead { packet, warnings }
    }
}

impl Ep for c7::Connection {
    const V7: bool = true;
    const NAME: &'static str = "v7";
    const ONLINE: u8 = 5;
    const MAX_PAYLOAD: usize = p7::MAX_PAYLOAD;
    common_impl!(c7);
    fn read(data: &[u8], _token: Option<bool>) -> WRead {
        let mut warnings = Vec::new();
        let mut buf = [0u8; 1400]; // MAX_PACKETSIZE: what the callers in the repository pass, the minimum accepted
        let packet = match p7::Packet::read(&mut WarnStr(&mut warnings), data, &mut buf[..]) {
            Err(e) => Err(format!("{:?}", e)),
            Ok(p7::Packet::Connless(c)) => Ok(WPacket::Connless(c.payload.to_vec())),
            Ok(p7::Packet::Connected(p7::ConnectedPacket { ack, type_, .. })) => Ok(match type_ {
                p7::ConnectedPacketType::Control(c) => WPacket::Control {
                    ack,
                    name: match c {
                        p7::ControlPacket::KeepAlive => "KeepAlive",
                        p7::ControlPacket::Connect(_) => "Connect",
                        p7::ControlPacket::Accept => "Accept",
                        p7::ControlPacket::Close(_) => "Close",
                        p7::ControlPacket::Token(_) => "Token",
                    },
                },
                p7::ConnectedPacketType::Chunks(request_resend, num_chunks, payload) => {
                    let mut it = p7::ChunksIter::new(payload, num_chunks);
                    let mut chunks = Vec::new();
                    while let Some(c) = it.next_warn(&mut WarnStr(&mut warnings)) {
                        chunks.push(WChunk {
                            data: c.data.to_vec(),
                            vital: c.vital,
                        });
                    }
                    WPacket::Chunks {
                        ack,
                        request_resend,
                        num_chunks,
                        chunks,
                    }
                }
            }),
        };
        WRead { packet, warnings }
    }
}
