//! Common runtime of the /verif checks: tiers, panic capture, watchdog,
//! outcome-class counting, known findings, replay files, evidence files and
//! the exit-code protocol (0 held / 1 VIOLATION / 2 machinery error).

use serde_json::json;
use serde_json::Value;
use std::cell::RefCell;
use std::collections::BTreeMap;
use std::collections::BTreeSet;
use std::fs;
use std::panic;
use std::path::PathBuf;
use std::sync::atomic::AtomicU64;
use std::sync::atomic::Ordering;
use std::sync::Arc;
use std::sync::Mutex;
use std::time::Duration;
use std::time::Instant;

pub use rayon;
pub use serde_json;

pub const VERIF_DIR: &str = "/verif";

/// Where evidence goes (sub-runs under a sanitizer redirect it).
pub fn evidence_dir() -> String {
    std::env::var("VERIF_EVIDENCE_DIR").unwrap_or_else(|_| format!("{}/evidence", VERIF_DIR))
}

pub fn replays_dir() -> String {
    std::env::var("VERIF_REPLAYS_DIR").unwrap_or_else(|_| format!("{}/replays", VERIF_DIR))
}

#[derive(Clone, Copy, Debug, Eq, PartialEq)]
pub enum Tier {
    Quick,
    Thorough,
}

impl Tier {
    pub fn name(self) -> &'static str {
        match self {
            Tier::Quick => "quick",
            Tier::Thorough => "thorough",
        }
    }
    pub fn pick<T>(self, quick: T, thorough: T) -> T {
        match self {
            Tier::Quick => quick,
            Tier::Thorough => thorough,
        }
    }
}

/// Tier from the first command line argument, else `VERIF_TIER`, else quick.
pub fn tier_from_args() -> Tier {
    let arg = std::env::args().nth(1);
    let env = std::env::var("VERIF_TIER").ok();
    match arg.as_deref().or(env.as_deref()) {
        Some("thorough") => Tier::Thorough,
        _ => Tier::Quick,
    }
}

pub fn seed_from_env() -> i64 {
    std::env::var("VERIF_SEED")
        .ok()
        .and_then(|s| s.parse().ok())
        .unwrap_or(0)
}

// ---------------------------------------------------------------------------
// Panic capture
// ---------------------------------------------------------------------------

thread_local! {
    static LAST_PANIC: RefCell<Option<String>> = RefCell::new(None);
    /// how many `catch` frames are active on this thread
    static CATCH_DEPTH: std::cell::Cell<u32> = std::cell::Cell::new(0);
}

/// The run of this process, for the panic hook.
static CURRENT_RUN: std::sync::OnceLock<Arc<Run>> = std::sync::OnceLock::new();

/// Install a panic hook that records message and location per thread and
/// prints nothing (the checks provoke panics on purpose).
pub fn install_panic_hook() {
    panic::set_hook(Box::new(|info| {
        let msg = if let Some(s) = info.payload().downcast_ref::<&str>() {
            s.to_string()
        } else if let Some(s) = info.payload().downcast_ref::<String>() {
            s.clone()
        } else {
            "<non-string panic>".to_string()
        };
        let loc = info
            .location()
            .map(|l| format!("{}:{}", l.file(), l.line()))
            .unwrap_or_else(|| "?".into());
        if std::env::var_os("VERIF_SHOW_PANICS").is_some() {
            eprintln!("panic: {} @ {}", msg, loc);
        }
        LAST_PANIC.with(|p| *p.borrow_mut() = Some(format!("{} @ {}", msg, loc)));
        // A panic outside every `catch` frame is an expectation of the harness itself that
        // failed (a scripted set-up step did not behave as on the unchanged tree, an internal
        // assertion about the library's answers). On the unchanged tree none fires; when one
        // does, the library behaved differently than the scenario requires: report it as a
        // violation with the message as its signature instead of dying with exit code 101.
        if CATCH_DEPTH.with(|d| d.get()) == 0 {
            if let Some(run) = CURRENT_RUN.get() {
                let full = format!("{} @ {}", msg, loc);
                std::thread::spawn(|| {
                    std::thread::sleep(Duration::from_secs(20));
                    eprintln!("MACHINERY-ERROR: could not write the evidence after a harness expectation failed");
                    std::process::exit(2);
                });
                run.violation(
                    &format!("harness-expectation:{}", panic_sig(&full)),
                    &format!("an expectation of the harness about the library's behaviour failed: {}", full),
                    json!({"panic": full}),
                );
                run.cap("stopped: an expectation of the harness failed");
                run.finish_inner(false);
            }
        }
    }));
}

/// Run `f`, turning a panic into `Err("message @ file:line")`.
pub fn catch<T>(f: impl FnOnce() -> T) -> Result<T, String> {
    CATCH_DEPTH.with(|d| d.set(d.get() + 1));
    let r = panic::catch_unwind(panic::AssertUnwindSafe(f));
    CATCH_DEPTH.with(|d| d.set(d.get() - 1));
    match r {
        Ok(v) => Ok(v),
        Err(_) => Err(LAST_PANIC
            .with(|p| p.borrow_mut().take())
            .unwrap_or_else(|| "<panic without hook>".into())),
    }
}

/// Strip the line number and the path prefix up to the repository crate from a
/// captured panic, so that signatures survive unrelated edits.
pub fn panic_sig(p: &str) -> String {
    // "message @ /repo/net/src/connection.rs:123"
    let (msg, loc) = match p.rsplit_once(" @ ") {
        Some(x) => x,
        None => return p.to_string(),
    };
    let file = loc.rsplit_once(':').map(|x| x.0).unwrap_or(loc);
    // (also when the repository is a scratch copy somewhere else: .../repo/net/src/...)
    let file = file.find("/repo/").map(|i| &file[i + 6..]).unwrap_or(file);
    // Drop numbers from the message (lengths, indices) to get a class.
    let mut m = String::new();
    let mut last_digit = false;
    for c in msg.chars() {
        if c.is_ascii_digit() {
            if !last_digit {
                m.push('#');
            }
            last_digit = true;
        } else {
            m.push(c);
            last_digit = false;
        }
    }
    let m: String = m.chars().take(80).collect();
    format!("panic:{}:{}", file, m)
}

// ---------------------------------------------------------------------------
// Watchdog: "every call returns"
// ---------------------------------------------------------------------------

struct Slot {
    start_ms: AtomicU64, // 0 = idle
    desc: Mutex<Option<Arc<dyn Fn() -> Value + Send + Sync>>>,
}

const NSLOTS: usize = 256;

pub struct Watchdog {
    slots: Vec<Slot>,
    epoch: Instant,
    next: AtomicU64,
}

thread_local! {
    static MY_SLOT: RefCell<Option<usize>> = RefCell::new(None);
}

pub struct WatchGuard<'a> {
    slot: &'a Slot,
}

impl<'a> Drop for WatchGuard<'a> {
    fn drop(&mut self) {
        self.slot.start_ms.store(0, Ordering::Release);
    }
}

impl Watchdog {
    fn new() -> Watchdog {
        Watchdog {
            slots: (0..NSLOTS)
                .map(|_| Slot {
                    start_ms: AtomicU64::new(0),
                    desc: Mutex::new(None),
                })
                .collect(),
            epoch: Instant::now(),
            next: AtomicU64::new(0),
        }
    }
    /// Mark the start of one library call on this thread. `desc` is only
    /// evaluated if the call does not return in time.
    pub fn watch(&self, desc: Arc<dyn Fn() -> Value + Send + Sync>) -> WatchGuard<'_> {
        let idx = MY_SLOT.with(|s| {
            let mut s = s.borrow_mut();
            if s.is_none() {
                *s = Some(self.next.fetch_add(1, Ordering::Relaxed) as usize % NSLOTS);
            }
            s.unwrap()
        });
        let slot = &self.slots[idx];
        *slot.desc.lock().unwrap() = Some(desc);
        let now = self.epoch.elapsed().as_millis() as u64 + 1;
        slot.start_ms.store(now, Ordering::Release);
        WatchGuard { slot }
    }
}

// ---------------------------------------------------------------------------
// Known findings
// ---------------------------------------------------------------------------

#[derive(Clone, Debug)]
pub struct KnownFinding {
    pub property: String,
    pub sig: String,
    pub what: String,
}

fn load_known(id: &str) -> Vec<KnownFinding> {
    let path = format!("{}/known_findings.json", VERIF_DIR);
    let text = match fs::read_to_string(&path) {
        Ok(t) => t,
        Err(_) => return Vec::new(),
    };
    let v: Value = match serde_json::from_str(&text) {
        Ok(v) => v,
        Err(e) => machinery_error(&format!("known_findings.json does not parse: {}", e)),
    };
    let mut out = Vec::new();
    if let Some(a) = v.get("known").and_then(|k| k.as_array()) {
        for e in a {
            let property = e["property"].as_str().unwrap_or("").to_string();
            if property != id {
                continue;
            }
            out.push(KnownFinding {
                property,
                sig: e["sig"].as_str().unwrap_or("").to_string(),
                what: e["what"].as_str().unwrap_or("").to_string(),
            });
        }
    }
    out
}

pub fn machinery_error(msg: &str) -> ! {
    println!("MACHINERY-ERROR: {}", msg);
    eprintln!("MACHINERY-ERROR: {}", msg);
    std::process::exit(2);
}

// ---------------------------------------------------------------------------
// Run: one check execution
// ---------------------------------------------------------------------------

#[derive(Default)]
struct ClassInfo {
    count: u64,
    sample: Option<Value>,
}

pub struct Run {
    pub id: String,
    pub tier: Tier,
    pub seed: i64,
    level: String,
    start: Instant,
    known: Vec<KnownFinding>,
    evaluations: AtomicU64,
    classes: Mutex<BTreeMap<String, ClassInfo>>,
    violations: Mutex<Vec<(String, String)>>, // (sig, replay path)
    violation_sigs: Mutex<BTreeSet<String>>,
    known_hits: Mutex<BTreeMap<String, u64>>,
    extra: Mutex<serde_json::Map<String, Value>>,
    assumptions: Mutex<Vec<String>>,
    pub watchdog: Arc<Watchdog>,
    caps_hit: Mutex<Vec<String>>,
    max_violation_files: usize,
}

#[cfg(all(target_os = "linux", target_env = "gnu"))]
fn tune_allocator() {
    // glibc returns freed arena tops to the kernel with madvise(); with 16 worker threads
    // freeing 64 KiB buffers millions of times that call dominates the run (17 ms each in
    // this VM). Keep freed memory in the arenas instead.
    extern "C" {
        fn mallopt(param: i32, value: i32) -> i32;
    }
    const M_TRIM_THRESHOLD: i32 = -1;
    const M_MMAP_THRESHOLD: i32 = -3;
    unsafe {
        mallopt(M_TRIM_THRESHOLD, 1 << 30);
        // setting one threshold switches glibc's dynamic adjustment off, which would leave
        // every buffer above 128 KiB to a fresh mmap/munmap pair; 32 MiB is the maximum
        mallopt(M_MMAP_THRESHOLD, 32 << 20);
    }
}
#[cfg(not(all(target_os = "linux", target_env = "gnu")))]
fn tune_allocator() {}

impl Run {
    pub fn new(id: &str, level: &str) -> Arc<Run> {
        install_panic_hook();
        tune_allocator();
        let tier = tier_from_args();
        let run = Arc::new(Run {
            id: id.to_string(),
            tier,
            seed: seed_from_env(),
            level: level.to_string(),
            start: Instant::now(),
            known: load_known(id),
            evaluations: AtomicU64::new(0),
            classes: Mutex::new(BTreeMap::new()),
            violations: Mutex::new(Vec::new()),
            violation_sigs: Mutex::new(BTreeSet::new()),
            known_hits: Mutex::new(BTreeMap::new()),
            extra: Mutex::new(serde_json::Map::new()),
            assumptions: Mutex::new(Vec::new()),
            watchdog: Arc::new(Watchdog::new()),
            caps_hit: Mutex::new(Vec::new()),
            max_violation_files: 5,
        });
        run.assume(
            "harness and repository crates are built --release with overflow-checks and \
             debug-assertions ON (the semantics of the repository's own test profile)",
        );
        // watchdog thread
        let limit_ms: u64 = std::env::var("VERIF_CALL_TIMEOUT_MS")
            .ok()
            .and_then(|s| s.parse().ok())
            .unwrap_or(30_000);
        // resident-set guard: an exploration that outgrows memory is a
        // machinery failure (exit 2), never a verdict
        let rss_limit_gb: u64 = std::env::var("VERIF_MAX_RSS_GB")
            .ok()
            .and_then(|s| s.parse().ok())
            .unwrap_or(36);
        std::thread::spawn(move || loop {
            std::thread::sleep(Duration::from_millis(500));
            if let Ok(t) = fs::read_to_string("/proc/self/statm") {
                let pages: u64 = t.split(' ').nth(1).and_then(|x| x.parse().ok()).unwrap_or(0);
                if pages * 4096 > rss_limit_gb << 30 {
                    machinery_error(&format!("resident set exceeded {} GB; configuration too large for this tier", rss_limit_gb));
                }
            }
        });
        let r = run.clone();
        std::thread::spawn(move || loop {
            std::thread::sleep(Duration::from_millis(250));
            let now = r.watchdog.epoch.elapsed().as_millis() as u64 + 1;
            for slot in &r.watchdog.slots {
                let s = slot.start_ms.load(Ordering::Acquire);
                if s != 0 && now.saturating_sub(s) > limit_ms {
                    let desc = slot.desc.lock().unwrap().clone();
                    let case = desc.map(|d| d()).unwrap_or(Value::Null);
                    r.violation(
                        "nonterminating-call",
                        &format!("a library call did not return within {} ms", limit_ms),
                        case,
                    );
                    r.cap("stopped by the watchdog: a library call did not return");
                    r.finish_inner(false);
                }
            }
        });
        let _ = CURRENT_RUN.set(run.clone());
        run
    }
    pub fn elapsed(&self) -> f64 {
        self.start.elapsed().as_secs_f64()
    }
    pub fn assume(&self, s: &str) {
        self.assumptions.lock().unwrap().push(s.to_string());
    }
    pub fn cap(&self, s: &str) {
        self.caps_hit.lock().unwrap().push(s.to_string());
    }
    pub fn set(&self, key: &str, v: Value) {
        self.extra.lock().unwrap().insert(key.to_string(), v);
    }
    pub fn add_evals(&self, n: u64) {
        self.evaluations.fetch_add(n, Ordering::Relaxed);
    }
    pub fn evals(&self) -> u64 {
        self.evaluations.load(Ordering::Relaxed)
    }
    /// Count one evaluated case under its outcome class.
    pub fn class(&self, class: &str, sample: impl FnOnce() -> Value) {
        self.class_n(class, 1, sample)
    }
    pub fn class_n(&self, class: &str, n: u64, sample: impl FnOnce() -> Value) {
        let mut c = self.classes.lock().unwrap();
        let e = c.entry(class.to_string()).or_default();
        e.count += n;
        if e.sample.is_none() {
            e.sample = Some(sample());
        }
    }
    /// Merge thread-local class counts.
    pub fn merge_classes(&self, local: LocalClasses) {
        self.add_evals(local.evals);
        let mut c = self.classes.lock().unwrap();
        for (k, (n, s)) in local.map {
            let e = c.entry(k).or_default();
            e.count += n;
            if e.sample.is_none() {
                e.sample = s;
            }
        }
    }
    pub fn num_classes(&self) -> usize {
        self.classes.lock().unwrap().len()
    }
    pub fn is_known(&self, sig: &str) -> bool {
        self.known.iter().any(|k| k.sig == sig)
    }
    /// Report a violating case. Returns true if it is a listed known finding.
    pub fn violation(&self, sig: &str, detail: &str, case: Value) -> bool {
        let detail: String = if detail.len() > 700 {
            format!("{}...[{} bytes]", detail.chars().take(700).collect::<String>(), detail.len())
        } else {
            detail.to_string()
        };
        let detail = detail.as_str();
        if let Some(k) = self.known.iter().find(|k| k.sig == sig) {
            let mut h = self.known_hits.lock().unwrap();
            let first = !h.contains_key(&k.sig);
            *h.entry(k.sig.clone()).or_insert(0) += 1;
            if first {
                println!("KNOWN-FINDING: property={} {} [{}]", self.id, k.what, k.sig);
            }
            return true;
        }
        let fresh = self.violation_sigs.lock().unwrap().insert(sig.to_string());
        let mut v = self.violations.lock().unwrap();
        if fresh && v.len() < self.max_violation_files {
            let dir = PathBuf::from(format!("{}/{}", replays_dir(), self.id));
            let _ = fs::create_dir_all(&dir);
            let path = dir.join(format!("{}-{}.json", self.tier.name(), v.len()));
            let body = json!({
                "property": self.id,
                "tier": self.tier.name(),
                "sig": sig,
                "detail": detail,
                "case": case,
            });
            let _ = fs::write(&path, serde_json::to_string_pretty(&body).unwrap());
            println!(
                "VIOLATION property={} replay={}",
                self.id,
                path.to_string_lossy()
            );
            println!("  sig: {}", sig);
            println!("  detail: {}", detail);
            v.push((sig.to_string(), path.to_string_lossy().to_string()));
        } else if fresh {
            v.push((sig.to_string(), String::new()));
        }
        false
    }
    pub fn num_violations(&self) -> usize {
        self.violation_sigs.lock().unwrap().len()
    }
    /// Write the evidence file and exit with the protocol's exit code.
    pub fn finish(&self, rule: &str, exhaustive: bool) -> ! {
        self.set("rule", json!(rule));
        self.finish_inner(exhaustive)
    }
    fn finish_inner(&self, exhaustive: bool) -> ! {
        let classes = self.classes.lock().unwrap();
        let mut coverage = self.extra.lock().unwrap().clone();
        let caps = self.caps_hit.lock().unwrap().clone();
        let evals = self.evals();
        coverage.insert("evaluations".into(), json!(evals));
        coverage.insert("distinct_nontrivial".into(), json!(classes.len()));
        let mut samples: Vec<Value> = Vec::new();
        let mut class_counts = serde_json::Map::new();
        for (k, v) in classes.iter() {
            class_counts.insert(k.clone(), json!(v.count));
            if samples.len() < 24 {
                if let Some(s) = &v.sample {
                    samples.push(json!({"class": k, "case": s}));
                }
            }
        }
        if !coverage.contains_key("samples") {
            coverage.insert("samples".into(), Value::Array(samples));
        }
        if class_counts.len() <= 3000 {
            coverage.insert("outcome_classes".into(), Value::Object(class_counts));
        }
        coverage.insert("exhaustive".into(), json!(exhaustive && caps.is_empty()));
        if !caps.is_empty() {
            coverage.insert("caps_hit".into(), json!(caps));
        }
        if !coverage.contains_key("rule") {
            coverage.insert("rule".into(), json!(""));
        }
        let known_hits = self.known_hits.lock().unwrap();
        if !known_hits.is_empty() {
            coverage.insert(
                "known_findings_hit".into(),
                json!(known_hits
                    .iter()
                    .map(|(k, n)| json!({"sig": k, "cases": n}))
                    .collect::<Vec<_>>()),
            );
        }
        let violations = self.violations.lock().unwrap();
        let nviol = self.violation_sigs.lock().unwrap().len();
        let ev = json!({
            "property_id": self.id,
            "tier": self.tier.name(),
            "seed": self.seed,
            "level": self.level,
            "coverage": Value::Object(coverage),
            "assumptions": *self.assumptions.lock().unwrap(),
            "wall_s": self.elapsed(),
            "violations": nviol,
            "violation_replays": violations.iter().map(|v| json!({"sig": v.0, "replay": v.1})).collect::<Vec<_>>(),
        });
        let dir = evidence_dir();
        let _ = fs::create_dir_all(&dir);
        let path = format!("{}/{}.json", dir, self.id);
        if let Err(e) = fs::write(&path, serde_json::to_string_pretty(&ev).unwrap() + "\n") {
            machinery_error(&format!("cannot write {}: {}", path, e));
        }
        println!(
            "{} {} evaluations={} classes={} violations={} known_hits={} wall={:.1}s",
            self.id,
            self.tier.name(),
            evals,
            classes.len(),
            nviol,
            known_hits.len(),
            self.elapsed()
        );
        std::process::exit(if nviol == 0 { 0 } else { 1 });
    }
}

/// Thread-local class counter for hot loops; merged with `Run::merge_classes`.
#[derive(Default)]
pub struct LocalClasses {
    pub evals: u64,
    map: BTreeMap<String, (u64, Option<Value>)>,
}

impl LocalClasses {
    pub fn new() -> LocalClasses {
        Default::default()
    }
    pub fn eval(&mut self) {
        self.evals += 1;
    }
    pub fn class(&mut self, class: &str, sample: impl FnOnce() -> Value) {
        match self.map.get_mut(class) {
            Some(e) => e.0 += 1,
            None => {
                self.map.insert(class.to_string(), (1, Some(sample())));
            }
        }
    }
    pub fn merge(mut self, other: LocalClasses) -> LocalClasses {
        self.evals += other.evals;
        for (k, (n, s)) in other.map {
            let e = self.map.entry(k).or_insert((0, None));
            e.0 += n;
            if e.1.is_none() {
                e.1 = s;
            }
        }
        self
    }
}

pub fn hex(b: &[u8]) -> String {
    let mut s = String::with_capacity(b.len() * 2);
    for x in b {
        s.push_str(&format!("{:02x}", x));
    }
    s
}

pub fn unhex(s: &str) -> Vec<u8> {
    (0..s.len() / 2)
        .map(|i| u8::from_str_radix(&s[2 * i..2 * i + 2], 16).unwrap())
        .collect()
}

/// Short rendering of a byte string for samples: hex if short, else
/// length + head.
pub fn hex_short(b: &[u8]) -> String {
    if b.len() <= 48 {
        hex(b)
    } else {
        format!("{}..(len {})", hex(&b[..32]), b.len())
    }
}

/// Deterministic LCG byte stream: a *named, fixed* member of an input
/// alphabet, not a source of randomness for verdicts.
pub fn lcg_bytes(seed: u64, len: usize) -> Vec<u8> {
    let mut x = seed
        .wrapping_mul(6364136223846793005)
        .wrapping_add(1442695040888963407);
    (0..len)
        .map(|_| {
            x = x
                .wrapping_mul(6364136223846793005)
                .wrapping_add(1442695040888963407);
            (x >> 33) as u8
        })
        .collect()
}
