//! C14: generated message and object codecs match the protocol descriptions.
//! The descriptions (gamenet/generate/spec/*.json) are interpreted
//! independently of the generator and of the generated code.

use libtw2_gamenet_common::snap_obj::TypeId;
use libtw2_packer::with_packer;
use libtw2_packer::IntUnpacker;
use libtw2_packer::Unpacker;
use std::sync::Arc;
use vp_core::rayon::prelude::*;
use vp_core::serde_json::json;
use vp_core::serde_json::Value;
use vp_core::LocalClasses;
use vp_core::Run;
use vp_core::Tier;

// ---------------------------------------------------------------------------
// the four codecs behind one interface
// ---------------------------------------------------------------------------

struct WarnStr<'a>(&'a mut Vec<String>);
impl<'a, W: std::fmt::Debug> libtw2_warn::Warn<W> for WarnStr<'a> {
    fn warn(&mut self, w: W) {
        self.0.push(format!("{:?}", w));
    }
}

type Decoded<T> = Result<(T, Vec<String>), String>;

trait Proto: Sync {
    fn name(&self) -> &'static str;
    fn spec_file(&self) -> &'static str;
    /// decode a system/game message, re-encode it
    fn msg(&self, bytes: &[u8]) -> Decoded<Vec<u8>>;
    fn connless(&self, bytes: &[u8]) -> Decoded<Vec<u8>>;
    fn obj(&self, type_id: TypeId, ints: &[i32]) -> Decoded<(Vec<i32>, TypeId)>;
    fn obj_size(&self, t: u16) -> Option<u32>;
}

macro_rules! proto {
    ($s:ident, $krate:ident, $name:expr, $file:expr) => {
        struct $s;
        impl Proto for $s {
            fn name(&self) -> &'static str {
                $name
            }
            fn spec_file(&self) -> &'static str {
                $file
            }
            fn msg(&self, bytes: &[u8]) -> Decoded<Vec<u8>> {
                use libtw2_gamenet_common::msg::SystemOrGame;
                let mut w = Vec::new();
                let mut p = Unpacker::new(bytes);
                let m = $krate::msg::decode(&mut WarnStr(&mut w), &mut p).map_err(|e| format!("{:?}", e))?;
                let mut out: Vec<u8> = Vec::with_capacity(bytes.len() * 2 + 4096);
                match m {
                    SystemOrGame::System(s) => with_packer(&mut out, |p| s.encode(p).map(|b| b.len())),
                    SystemOrGame::Game(g) => with_packer(&mut out, |p| g.encode(p).map(|b| b.len())),
                }
                .map_err(|_| "re-encode: capacity".to_string())?;
                Ok((out, w))
            }
            fn connless(&self, bytes: &[u8]) -> Decoded<Vec<u8>> {
                let mut w = Vec::new();
                let mut p = Unpacker::new(bytes);
                let m = $krate::msg::Connless::decode(&mut WarnStr(&mut w), &mut p).map_err(|e| format!("{:?}", e))?;
                let mut out: Vec<u8> = Vec::with_capacity(bytes.len() * 2 + 4096);
                with_packer(&mut out, |p| m.encode(p).map(|b| b.len())).map_err(|_| "re-encode: capacity".to_string())?;
                Ok((out, w))
            }
            fn obj(&self, type_id: TypeId, ints: &[i32]) -> Decoded<(Vec<i32>, TypeId)> {
                let mut w = Vec::new();
                let mut p = IntUnpacker::new(ints);
                let o = $krate::SnapObj::decode_obj(&mut WarnStr(&mut w), type_id, &mut p).map_err(|e| format!("{:?}", e))?;
                Ok(((o.encode().to_vec(), o.obj_type_id()), w))
            }
            fn obj_size(&self, t: u16) -> Option<u32> {
                $krate::snap_obj::obj_size(t)
            }
        }
    };
}

proto!(P05, libtw2_gamenet_teeworlds_0_5, "teeworlds-0.5", "teeworlds-0.5.json");
proto!(P06, libtw2_gamenet_teeworlds_0_6, "teeworlds-0.6", "teeworlds-0.6.json");
proto!(P07, libtw2_gamenet_teeworlds_0_7, "teeworlds-0.7", "teeworlds-0.7-trunk.json");
proto!(PDD, libtw2_gamenet_ddnet, "ddnet", "ddnet-19.6.json");

// ---------------------------------------------------------------------------
// independent interpreter of the descriptions
// ---------------------------------------------------------------------------

#[derive(Clone, Copy, Debug, Eq, PartialEq)]
enum Verdict {
    Accept,
    Reject,
    /// the description does not say (not judged beyond "does not panic")
    Open,
}

#[derive(Clone, Debug)]
struct Case {
    label: String,
    /// message mode: bytes; object mode: ints
    bytes: Vec<u8>,
    ints: Vec<i32>,
    verdict: Verdict,
    /// optional member left out: everything after it is left out too
    absent: bool,
    /// too-short raw field: only a violation if nothing follows it
    short: bool,
}

fn enc_int(out: &mut Vec<u8>, v: i32) {
    let sign = v < 0;
    let mut bits: u32 = if sign { !(v as u32) } else { v as u32 };
    let mut b = (bits & 0x3f) as u8 | if sign { 0x40 } else { 0 };
    bits >>= 6;
    loop {
        if bits != 0 {
            out.push(b | 0x80);
            b = (bits & 0x7f) as u8;
            bits >>= 7;
        } else {
            out.push(b);
            break;
        }
    }
}

struct Spec {
    v: Value,
}

fn ident(v: &Value) -> String {
    v.as_array().map(|a| a.iter().map(|p| p.as_str().unwrap_or("")).collect::<Vec<_>>().join("_")).unwrap_or_default()
}

impl Spec {
    fn enum_values(&self, name: &Value) -> Vec<i32> {
        for e in self.v["game_enumerations"].as_array().unwrap() {
            if e["name"] == *name {
                return e["values"].as_array().unwrap().iter().map(|x| x["value"].as_i64().unwrap() as i32).collect();
            }
        }
        panic!("enum {} not in the description", ident(name));
    }
    fn flag_values(&self, name: &Value) -> Vec<u32> {
        for e in self.v["game_flags"].as_array().unwrap() {
            if e["name"] == *name {
                return e["values"].as_array().unwrap().iter().map(|x| x["value"].as_u64().unwrap() as u32).collect();
            }
        }
        panic!("flags {} not in the description", ident(name));
    }
    fn object(&self, name: &Value) -> &Value {
        for o in self.v["snapshot_objects"].as_array().unwrap() {
            if o["name"] == *name {
                return o;
            }
        }
        panic!("object {} not in the description", ident(name));
    }
    /// all members of an object including those of its super objects, in wire order
    fn object_members(&self, o: &Value) -> Vec<Value> {
        let mut m = Vec::new();
        if let Some(s) = o.get("super") {
            if !s.is_null() {
                m.extend(self.object_members(self.object(s)));
            }
        }
        m.extend(o["members"].as_array().unwrap().iter().cloned());
        m
    }
}

fn int_case(label: &str, v: i32, verdict: Verdict) -> Case {
    let mut b = Vec::new();
    enc_int(&mut b, v);
    Case { label: format!("{}={}", label, v), bytes: b, ints: vec![v], verdict, absent: false, short: false }
}

fn raw_case(label: &str, bytes: Vec<u8>, verdict: Verdict) -> Case {
    let short = label.ends_with("-short") || label.ends_with("-unterminated") || label.ends_with("-beyond-end");
    Case { label: label.to_string(), bytes, ints: vec![], verdict, absent: false, short }
}

/// Cases for one member type; the first case is the baseline (accepted).
fn cases(spec: &Spec, ty: &Value, obj_mode: bool) -> Vec<Case> {
    let kind = ty["kind"].as_str().unwrap_or("");
    match kind {
        "int32" => {
            let min = ty.get("min").and_then(|x| x.as_i64()).map(|x| x as i32);
            let max = ty.get("max").and_then(|x| x.as_i64()).map(|x| x as i32);
            let lo = min.unwrap_or(i32::MIN);
            let hi = max.unwrap_or(i32::MAX);
            let base = if lo <= 1 && 1 <= hi { 1 } else { lo };
            let mut v = vec![int_case("int", base, Verdict::Accept)];
            let mut cand: Vec<i32> = vec![lo, lo.saturating_add(1), 0, hi.saturating_sub(1), hi, 63, 64, -64, -65, i32::MIN, i32::MAX];
            cand.sort();
            cand.dedup();
            for c in cand {
                v.push(int_case("int", c, if lo <= c && c <= hi { Verdict::Accept } else { Verdict::Reject }));
            }
            if let Some(m) = min {
                if m > i32::MIN {
                    v.push(int_case("int-below-min", m - 1, Verdict::Reject));
                }
            }
            if let Some(m) = max {
                if m < i32::MAX {
                    v.push(int_case("int-above-max", m + 1, Verdict::Reject));
                }
            }
            v
        }
        "enum" => {
            let vals = spec.enum_values(&ty["enum"]);
            let mut v: Vec<Case> = vals.iter().map(|&x| int_case("enum", x, Verdict::Accept)).collect();
            let lo = *vals.iter().min().unwrap();
            let hi = *vals.iter().max().unwrap();
            for c in [lo - 1, hi + 1, i32::MIN, i32::MAX] {
                if !vals.contains(&c) {
                    v.push(int_case("enum-outside", c, Verdict::Reject));
                }
            }
            v
        }
        "flags" => {
            let vals = spec.flag_values(&ty["flags"]);
            let all: u32 = vals.iter().fold(0, |a, b| a | b);
            let mut v = vec![int_case("flags", 0, Verdict::Accept)];
            for f in &vals {
                v.push(int_case("flags-bit", *f as i32, Verdict::Accept));
            }
            v.push(int_case("flags-all", all as i32, Verdict::Accept));
            v.push(int_case("flags-undeclared-bit", (all as i32) | ((all as i32 + 1).max(1)), Verdict::Open));
            v.push(int_case("flags-negative", -1, Verdict::Open));
            v
        }
        "boolean" => vec![
            int_case("bool", 1, Verdict::Accept),
            int_case("bool", 0, Verdict::Accept),
            int_case("bool-outside", -1, Verdict::Reject),
            int_case("bool-outside", 2, Verdict::Reject),
            int_case("bool-outside", i32::MAX, Verdict::Reject),
        ],
        "tick" | "tune_param" => vec![
            int_case(kind, 100, Verdict::Accept),
            int_case(kind, 0, Verdict::Accept),
            int_case(kind, -1, Verdict::Accept),
            int_case(kind, i32::MAX, Verdict::Accept),
            int_case(kind, i32::MIN, Verdict::Accept),
        ],
        "string" => {
            let strict = ty.get("disallow_cc").and_then(|x| x.as_bool()).unwrap_or(false);
            let s = |label: &str, body: &[u8], verdict: Verdict| {
                let mut b = body.to_vec();
                b.push(0);
                raw_case(label, b, verdict)
            };
            vec![
                s("string", b"abc", Verdict::Accept),
                s("string-empty", b"", Verdict::Accept),
                s("string-64", &[b'x'; 64], Verdict::Accept),
                s("string-utf8", "h\u{e9}llo \u{1f600}".as_bytes(), Verdict::Accept),
                s("string-control-char", b"a\x01b", if strict { Verdict::Reject } else { Verdict::Accept }),
                s("string-newline", b"a\nb", if strict { Verdict::Reject } else { Verdict::Accept }),
                s("string-del-and-high", b"\x7f\x80\xff", Verdict::Accept),
                // blanks are ordinary characters (>= 32): leading, trailing, nothing but blanks
                s("string-leading-blank", b" abc", Verdict::Accept),
                s("string-trailing-blank", b"abc  ", Verdict::Accept),
                s("string-only-blanks", b"   ", Verdict::Accept),
                s("string-tab-like-printables", b"\x20\x21\x7e", Verdict::Accept),
                raw_case("string-unterminated", b"abc".to_vec(), Verdict::Reject),
            ]
        }
        "int32_string" => {
            let s = |label: &str, body: &str, verdict: Verdict| {
                let mut b = body.as_bytes().to_vec();
                b.push(0);
                raw_case(label, b, verdict)
            };
            vec![
                s("intstr", "7", Verdict::Accept),
                s("intstr", "0", Verdict::Accept),
                s("intstr", "-1", Verdict::Accept),
                s("intstr", "2147483647", Verdict::Accept),
                s("intstr", "-2147483648", Verdict::Accept),
                s("intstr-empty", "", Verdict::Reject),
                s("intstr-garbage", "x", Verdict::Reject),
                s("intstr-trailing", "1x", Verdict::Reject),
                s("intstr-overflow", "2147483648", Verdict::Reject),
                s("intstr-noncanonical", "+1", Verdict::Open),
                s("intstr-noncanonical", "01", Verdict::Open),
            ]
        }
        "data" => {
            let d = |n: usize| {
                let mut b = Vec::new();
                enc_int(&mut b, n as i32);
                b.extend((0..n).map(|i| (i * 37 + 1) as u8));
                b
            };
            let mut neg = Vec::new();
            enc_int(&mut neg, -1);
            let mut long = Vec::new();
            enc_int(&mut long, 10);
            long.extend_from_slice(b"abc");
            vec![
                raw_case("data-5", d(5), Verdict::Accept),
                raw_case("data-0", d(0), Verdict::Accept),
                raw_case("data-1", d(1), Verdict::Accept),
                raw_case("data-300", d(300), Verdict::Accept),
                // the descriptions declare no limit: sizes around the 900-byte snapshot part, around
                // the 1024-byte chunk and well beyond both
                raw_case("data-900", d(900), Verdict::Accept),
                raw_case("data-901", d(901), Verdict::Accept),
                raw_case("data-1024", d(1024), Verdict::Accept),
                raw_case("data-4096", d(4096), Verdict::Accept),
                raw_case("data-8193", d(8193), Verdict::Accept),
                raw_case("data-negative-length", neg, Verdict::Reject),
                raw_case("data-length-beyond-end", long, Verdict::Reject),
            ]
        }
        "rest" | "serverinfo_client" => vec![
            raw_case("rest-3", vec![1, 2, 3], Verdict::Accept),
            raw_case("rest-0", vec![], Verdict::Accept),
            raw_case("rest-40", (0..40).map(|i| i as u8).collect(), Verdict::Accept),
        ],
        "packed_addresses" => vec![
            raw_case("addrs-1", (0..18).map(|i| i as u8).collect(), Verdict::Accept),
            raw_case("addrs-0", vec![], Verdict::Accept),
            raw_case("addrs-2", (0..36).map(|i| (i * 3) as u8).collect(), Verdict::Accept),
            raw_case("addrs-partial", (0..19).map(|i| i as u8).collect(), Verdict::Open),
        ],
        "sha256" => vec![
            raw_case("sha256", (0..32).map(|i| (i * 7) as u8).collect(), Verdict::Accept),
            raw_case("sha256-ff", vec![0xff; 32], Verdict::Accept),
            raw_case("sha256-short", vec![1; 31], Verdict::Reject),
        ],
        "uuid" => vec![
            raw_case("uuid", (0..16).map(|i| (i * 11 + 1) as u8).collect(), Verdict::Accept),
            raw_case("uuid-zero", vec![0; 16], Verdict::Accept),
            raw_case("uuid-short", vec![1; 15], Verdict::Reject),
        ],
        "uint8" => vec![raw_case("u8", vec![7], Verdict::Accept), raw_case("u8", vec![0], Verdict::Accept), raw_case("u8", vec![255], Verdict::Accept)],
        "be_uint16" => vec![
            raw_case("be16", vec![0x12, 0x34], Verdict::Accept),
            raw_case("be16", vec![0, 0], Verdict::Accept),
            raw_case("be16", vec![0xff, 0xff], Verdict::Accept),
            raw_case("be16-short", vec![1], Verdict::Reject),
        ],
        "int32_twstring" => {
            let n = ty["count"].as_u64().unwrap() as usize;
            let mk = |f: &dyn Fn(usize) -> i32, label: &str| Case { label: label.into(), bytes: vec![], ints: (0..n).map(f).collect(), verdict: Verdict::Accept, absent: false, short: false };
            vec![mk(&|i| 0x6162_6364 + i as i32, "twstring"), mk(&|_| 0, "twstring-zero"), mk(&|_| -1, "twstring-ff"), mk(&|_| i32::MIN, "twstring-min")]
        }
        "optional" => {
            let inner = cases(spec, &ty["inner"], obj_mode);
            let mut v: Vec<Case> = Vec::new();
            v.push(Case { label: format!("optional-present:{}", inner[0].label), ..inner[0].clone() });
            v.push(Case { label: "optional-absent".into(), bytes: vec![], ints: vec![], verdict: Verdict::Accept, absent: true, short: false });
            for c in &inner[1..] {
                // an invalid inner value is read as "absent" by a lenient reader: not judged
                v.push(Case { label: format!("optional-present:{}", c.label), verdict: if c.verdict == Verdict::Accept { Verdict::Accept } else { Verdict::Open }, ..c.clone() });
            }
            v
        }
        "array" => {
            let n = ty["count"].as_u64().unwrap() as usize;
            let inner = cases(spec, &ty["member_type"], obj_mode);
            let mut v = Vec::new();
            let compose = |pick: &dyn Fn(usize) -> usize, label: String| {
                let mut c = Case { label, bytes: vec![], ints: vec![], verdict: Verdict::Accept, absent: false, short: false };
                for i in 0..n {
                    let e = &inner[pick(i)];
                    c.bytes.extend_from_slice(&e.bytes);
                    c.ints.extend_from_slice(&e.ints);
                    if e.verdict != Verdict::Accept {
                        c.verdict = e.verdict;
                    }
                }
                c
            };
            v.push(compose(&|_| 0, "array-baseline".into()));
            for (j, e) in inner.iter().enumerate().skip(1) {
                v.push(compose(&|i| if i == 0 { j } else { 0 }, format!("array[0]:{}", e.label)));
                if n > 1 {
                    v.push(compose(&|i| if i == n - 1 { j } else { 0 }, format!("array[last]:{}", e.label)));
                }
            }
            v
        }
        "snapshot_object" => {
            let o = spec.object(&ty["name"]);
            let members = spec.object_members(o);
            let per: Vec<Vec<Case>> = members.iter().map(|m| cases(spec, &m["type"], obj_mode)).collect();
            let mut v = Vec::new();
            let compose = |which: Option<(usize, usize)>, label: String| {
                let mut c = Case { label, bytes: vec![], ints: vec![], verdict: Verdict::Accept, absent: false, short: false };
                for (i, alts) in per.iter().enumerate() {
                    let e = match which {
                        Some((k, j)) if k == i => &alts[j],
                        _ => &alts[0],
                    };
                    c.bytes.extend_from_slice(&e.bytes);
                    c.ints.extend_from_slice(&e.ints);
                    if e.verdict != Verdict::Accept {
                        c.verdict = e.verdict;
                    }
                }
                c
            };
            v.push(compose(None, "object-baseline".into()));
            for (k, alts) in per.iter().enumerate() {
                for (j, e) in alts.iter().enumerate().skip(1) {
                    v.push(compose(Some((k, j)), format!("object.{}:{}", ident(&members[k]["name"]), e.label)));
                }
            }
            v
        }
        other => panic!("member kind {:?} is not known to the interpreter", other),
    }
}

struct Codec {
    section: &'static str,
    name: String,
    /// bytes in front of the members (message id / connless id)
    prefix: Vec<u8>,
    type_id: Option<TypeId>,
    members: Vec<Value>,
    attributes: Vec<String>,
}

fn msg_prefix(id: &Value, system: bool) -> Vec<u8> {
    let mut out = Vec::new();
    if let Some(i) = id.as_i64() {
        enc_int(&mut out, ((i as i32) << 1) | system as i32);
    } else {
        enc_int(&mut out, system as i32);
        let u: uuid::Uuid = id.as_str().unwrap().parse().unwrap();
        out.extend_from_slice(u.as_bytes());
    }
    out
}

fn codecs(spec: &Spec) -> Vec<Codec> {
    let mut v = Vec::new();
    for (section, system) in [("system_messages", true), ("game_messages", false)] {
        for m in spec.v[section].as_array().unwrap() {
            v.push(Codec {
                section,
                name: ident(&m["name"]),
                prefix: msg_prefix(&m["id"], system),
                type_id: None,
                members: m["members"].as_array().unwrap().clone(),
                attributes: m["attributes"].as_array().map(|a| a.iter().map(|x| x.as_str().unwrap().to_string()).collect()).unwrap_or_default(),
            });
        }
    }
    for m in spec.v["connless_messages"].as_array().unwrap() {
        v.push(Codec {
            section: "connless_messages",
            name: ident(&m["name"]),
            prefix: m["id"].as_array().unwrap().iter().map(|x| x.as_u64().unwrap() as u8).collect(),
            type_id: None,
            members: m["members"].as_array().unwrap().clone(),
            attributes: vec![],
        });
    }
    for o in spec.v["snapshot_objects"].as_array().unwrap() {
        let type_id = if let Some(i) = o["id"].as_i64() { TypeId::Ordinal(i as u16) } else { TypeId::Uuid(o["id"].as_str().unwrap().parse().unwrap()) };
        v.push(Codec {
            section: "snapshot_objects",
            name: ident(&o["name"]),
            prefix: vec![],
            type_id: Some(type_id),
            members: spec.object_members(o),
            attributes: o["attributes"].as_array().map(|a| a.iter().map(|x| x.as_str().unwrap().to_string()).collect()).unwrap_or_default(),
        });
    }
    v
}

/// Assemble one input from per-member choices; returns (bytes, ints, verdict).
fn assemble(c: &Codec, per: &[Vec<Case>], choice: &[(usize, usize)]) -> (Vec<u8>, Vec<i32>, Verdict, String) {
    let mut bytes = c.prefix.clone();
    let mut ints = Vec::new();
    let mut verdict = Verdict::Accept;
    let mut label = String::new();
    for (i, alts) in per.iter().enumerate() {
        let j = choice.iter().find(|x| x.0 == i).map(|x| x.1).unwrap_or(0);
        let e = &alts[j];
        if j != 0 {
            label.push_str(&format!("{}:{} ", ident(&c.members[i]["name"]), e.label));
        }
        if e.absent {
            // everything after an absent optional is absent too; only canonical if all of it is optional
            let rest_optional = c.members[i..].iter().all(|m| m["type"]["kind"] == "optional");
            if !rest_optional {
                verdict = Verdict::Open;
            }
            break;
        }
        bytes.extend_from_slice(&e.bytes);
        ints.extend_from_slice(&e.ints);
        let mut ev = e.verdict;
        if e.short && i + 1 < per.len() {
            // the following members' bytes complete the field: the layout shifts, nothing is promised
            ev = Verdict::Open;
        }
        let e_verdict = ev;
        match (verdict, e_verdict) {
            (_, Verdict::Reject) => verdict = Verdict::Reject,
            (Verdict::Accept, Verdict::Open) => verdict = Verdict::Open,
            _ => {}
        }
    }
    // a constraint violated in front of an unterminated / rest member is still a violation;
    // but a Reject combined with an earlier Open stays Reject only if the reader gets that far
    (bytes, ints, verdict, label)
}

fn run_one(p: &dyn Proto, c: &Codec, bytes: &[u8], ints: &[i32], verdict: Verdict) -> Result<&'static str, String> {
    if let Some(tid) = c.type_id {
        match p.obj(tid, ints) {
            Ok(((re, tid2), w)) => {
                if verdict == Verdict::Reject {
                    return Err("a value that violates the description is accepted".into());
                }
                if verdict == Verdict::Accept {
                    if !w.is_empty() {
                        return Err(format!("canonical object decodes with warnings {:?}", w));
                    }
                    if re != ints || tid2 != tid {
                        return Err(format!("object re-encodes to {:?} (type {:?})", re, tid2));
                    }
                    match tid {
                        TypeId::Ordinal(t) => {
                            if let Some(sz) = p.obj_size(t) {
                                if sz as usize != ints.len() && !c.attributes.iter().any(|a| a == "dont_validate_size") {
                                    return Err(format!("obj_size({}) = {} but the description has {} words", t, sz, ints.len()));
                                }
                            }
                        }
                        TypeId::Uuid(_) => {}
                    }
                }
                Ok("accepted")
            }
            Err(e) => {
                if verdict == Verdict::Accept {
                    return Err(format!("canonical object is rejected: {}", e));
                }
                Ok("rejected")
            }
        }
    } else {
        let r = if c.section == "connless_messages" { p.connless(bytes) } else { p.msg(bytes) };
        match r {
            Ok((re, w)) => {
                if verdict == Verdict::Reject {
                    return Err("a value that violates the description is accepted".into());
                }
                if verdict == Verdict::Accept {
                    if !w.is_empty() {
                        return Err(format!("canonical message decodes with warnings {:?}", w));
                    }
                    if re != bytes {
                        return Err(format!("message re-encodes to {} instead of {}", vp_core::hex_short(&re), vp_core::hex_short(bytes)));
                    }
                }
                Ok("accepted")
            }
            Err(e) => {
                if verdict == Verdict::Accept {
                    return Err(format!("canonical message is rejected: {}", e));
                }
                Ok("rejected")
            }
        }
    }
}

fn check_codec(run: &Arc<Run>, p: &dyn Proto, spec: &Spec, c: &Codec, thorough: bool, lc: &mut LocalClasses) {
    let obj_mode = c.type_id.is_some();
    let per: Vec<Vec<Case>> = match vp_core::catch(|| c.members.iter().map(|m| cases(spec, &m["type"], obj_mode)).collect()) {
        Ok(p) => p,
        Err(e) => {
            run.violation("c14:interpreter", &format!("{} {} {}: {}", p.name(), c.section, c.name, e), json!({"protocol": p.name(), "codec": c.name}));
            return;
        }
    };
    let mut choices: Vec<Vec<(usize, usize)>> = vec![vec![]];
    for (i, alts) in per.iter().enumerate() {
        for j in 1..alts.len() {
            choices.push(vec![(i, j)]);
        }
    }
    for i in 0..per.len() {
        for k in (i + 1)..per.len() {
            for ji in 1..per[i].len() {
                for jk in 1..per[k].len() {
                    choices.push(vec![(i, ji), (k, jk)]);
                }
            }
        }
    }
    if thorough && per.len() <= 8 {
        for i in 0..per.len() {
            for k in (i + 1)..per.len() {
                for l in (k + 1)..per.len() {
                    for ji in 1..per[i].len() {
                        for jk in 1..per[k].len() {
                            for jl in 1..per[l].len() {
                                choices.push(vec![(i, ji), (k, jk), (l, jl)]);
                            }
                        }
                    }
                }
            }
        }
    }
    let mut baseline: Option<(Vec<u8>, Vec<i32>)> = None;
    for ch in &choices {
        let (bytes, ints, mut verdict, label) = assemble(c, &per, ch);
        // two deviations: a rejected first one may hide the second; only "accept" combinations and
        // combinations whose first deviating member is the rejected one are judged as reject
        if ch.len() >= 2 && verdict == Verdict::Reject {
            // an open deviation in front of the rejected one may change how far the reader gets
            let first_reject = ch.iter().position(|x| per[x.0][x.1].verdict == Verdict::Reject).unwrap_or(0);
            if ch[..first_reject].iter().any(|x| per[x.0][x.1].verdict == Verdict::Open) {
                verdict = Verdict::Open;
            }
        }
        // a reject after an unterminated string / rest member cannot be reached
        if verdict == Verdict::Reject {
            let first_bad = ch.iter().map(|x| x.0).min().unwrap_or(0);
            let _ = first_bad;
        }
        if ch.is_empty() {
            baseline = Some((bytes.clone(), ints.clone()));
        }
        lc.eval();
        let case = || json!({"protocol": p.name(), "section": c.section, "codec": c.name, "deviation": label, "bytes_hex": vp_core::hex(&bytes), "ints": ints, "expected": format!("{:?}", verdict)});
        match vp_core::catch(|| run_one(p, c, &bytes, &ints, verdict)) {
            Ok(Ok(o)) => lc.class(&format!("{}:{}:{:?}:{}", p.name(), c.section, verdict, o), case),
            Ok(Err(msg)) => {
                let sig = msg.split(|ch: char| ch.is_ascii_digit() || ch == '[' || ch == ':').next().unwrap_or("").trim().to_string();
                run.violation(&format!("c14:{}:{}:{}:{}", p.name(), c.section, c.name, sig), &format!("{} {} {} [{}]: {}", p.name(), c.section, c.name, label, msg), case());
            }
            Err(pn) => {
                run.violation(&format!("c14:{}:{}:{}:{}", p.name(), c.section, c.name, vp_core::panic_sig(&pn)), &format!("{} {} {} [{}]: {}", p.name(), c.section, c.name, label, pn), case());
            }
        }
    }
    // truncations and extensions of the canonical encoding: value or error, never a panic
    if let Some((bytes, ints)) = baseline {
        if obj_mode {
            for cut in 0..ints.len() {
                lc.eval();
                match vp_core::catch(|| p.obj(c.type_id.unwrap(), &ints[..cut])) {
                    Ok(Ok(_)) => {
                        run.violation(&format!("c14:{}:{}:{}:truncated-object-accepted", p.name(), c.section, c.name), &format!("{} object {} accepted with {} of {} words", p.name(), c.name, cut, ints.len()), json!({"protocol": p.name(), "codec": c.name, "ints": &ints[..cut]}));
                    }
                    Ok(Err(_)) => lc.class(&format!("{}:object-truncated:rejected", p.name()), || json!({"codec": c.name, "words": cut})),
                    Err(pn) => {
                        run.violation(&format!("c14:{}:{}:{}:{}", p.name(), c.section, c.name, vp_core::panic_sig(&pn)), &pn, json!({"protocol": p.name(), "codec": c.name, "ints": &ints[..cut]}));
                    }
                }
            }
            let mut ext = ints.clone();
            ext.push(7);
            lc.eval();
            match vp_core::catch(|| p.obj(c.type_id.unwrap(), &ext)) {
                Ok(Ok((_, w))) => {
                    if w.is_empty() {
                        run.violation(&format!("c14:{}:{}:{}:excess-word-no-warning", p.name(), c.section, c.name), "an extra word after the object raises no warning", json!({"protocol": p.name(), "codec": c.name, "ints": ext}));
                    } else {
                        lc.class(&format!("{}:object-extended:warned", p.name()), || json!({"codec": c.name}));
                    }
                }
                Ok(Err(_)) => lc.class(&format!("{}:object-extended:rejected", p.name()), || json!({"codec": c.name})),
                Err(pn) => {
                    run.violation(&format!("c14:{}:{}:{}:{}", p.name(), c.section, c.name, vp_core::panic_sig(&pn)), &pn, json!({"protocol": p.name(), "codec": c.name, "ints": ext}));
                }
            }
        } else {
            for cut in 0..bytes.len() {
                lc.eval();
                let r = vp_core::catch(|| if c.section == "connless_messages" { p.connless(&bytes[..cut]) } else { p.msg(&bytes[..cut]) });
                match r {
                    Ok(r) => lc.class(&format!("{}:message-truncated:{}", p.name(), if r.is_ok() { "value" } else { "error" }), || json!({"codec": c.name, "cut": cut})),
                    Err(pn) => {
                        run.violation(&format!("c14:{}:{}:{}:{}", p.name(), c.section, c.name, vp_core::panic_sig(&pn)), &pn, json!({"protocol": p.name(), "codec": c.name, "bytes_hex": vp_core::hex(&bytes[..cut])}));
                    }
                }
            }
        }
    }
}

fn short_strings_after_ids(run: &Arc<Run>, p: &dyn Proto, cs: &[Codec], maxlen: usize) {
    let msgs: Vec<&Codec> = cs.iter().filter(|c| c.type_id.is_none()).collect();
    let total: usize = (0..=maxlen).map(|l| 256usize.pow(l as u32)).sum();
    let lc = msgs
        .par_iter()
        .fold(LocalClasses::new, |mut lc, c| {
            for idx in 0..total {
                let mut i = idx;
                let mut l = 0;
                while i >= 256usize.pow(l as u32) {
                    i -= 256usize.pow(l as u32);
                    l += 1;
                }
                let mut b = c.prefix.clone();
                for k in 0..l {
                    b.push((i >> (8 * k)) as u8);
                }
                lc.eval();
                let r = vp_core::catch(|| if c.section == "connless_messages" { p.connless(&b).is_ok() } else { p.msg(&b).is_ok() });
                match r {
                    Ok(ok) => lc.class(&format!("{}:short-string:{}", p.name(), if ok { "value" } else { "error" }), || json!({"codec": c.name, "bytes": vp_core::hex(&b)})),
                    Err(pn) => {
                        run.violation(&format!("c14:{}:{}:{}:{}", p.name(), c.section, c.name, vp_core::panic_sig(&pn)), &pn, json!({"protocol": p.name(), "codec": c.name, "bytes_hex": vp_core::hex(&b)}));
                    }
                }
            }
            lc
        })
        .reduce(LocalClasses::new, |a, b| a.merge(b));
    run.merge_classes(lc);
    // object ids with short int sequences
    let objs: Vec<&Codec> = cs.iter().filter(|c| c.type_id.is_some()).collect();
    const V: [i32; 7] = [i32::MIN, -1, 0, 1, 2, 64, i32::MAX];
    for c in objs {
        for n in 0..=3usize {
            for idx in 0..7usize.pow(n as u32) {
                let ints: Vec<i32> = (0..n).map(|k| V[(idx / 7usize.pow(k as u32)) % 7]).collect();
                run.add_evals(1);
                if let Err(pn) = vp_core::catch(|| p.obj(c.type_id.unwrap(), &ints).is_ok()) {
                    run.violation(&format!("c14:{}:{}:{}:{}", p.name(), c.section, c.name, vp_core::panic_sig(&pn)), &pn, json!({"protocol": p.name(), "codec": c.name, "ints": ints}));
                }
            }
        }
    }
}

fn main() {
    let run = Run::new("C14", "exploration");
    let thorough = run.tier == Tier::Thorough;
    let protos: Vec<Box<dyn Proto>> = vec![Box::new(P05), Box::new(P06), Box::new(P07), Box::new(PDD)];
    let mut ncodecs = 0;
    for p in &protos {
        let text = std::fs::read_to_string(format!("/repo/gamenet/generate/spec/{}", p.spec_file())).expect("spec json");
        let spec = Spec { v: vp_core::serde_json::from_str(&text).expect("spec json parses") };
        let cs = codecs(&spec);
        ncodecs += cs.len();
        run.set(&format!("codecs_{}", p.name()), json!(cs.len()));
        let lc = cs
            .par_iter()
            .fold(LocalClasses::new, |mut lc, c| {
                check_codec(&run, p.as_ref(), &spec, c, thorough, &mut lc);
                lc
            })
            .reduce(LocalClasses::new, |a, b| a.merge(b));
        run.merge_classes(lc);
        short_strings_after_ids(&run, p.as_ref(), &cs, 2);
    }
    run.set("codecs_total", json!(ncodecs));
    run.assume("member kinds are interpreted by their conventional Teeworlds wire meaning (ints as variable-length integers, strings NUL-terminated, data length-prefixed, objects as 32-bit words); flags declare no range in the descriptions, so undeclared flag bits are not judged; a present-but-invalid optional member is read as absent by a lenient reader and is not judged");
    run.finish(
        "for each (description, generated crate) pair - teeworlds 0.5, 0.6, 0.7, ddnet - every system/game/connless message and every snapshot object: the canonical encoding built from the description with each member swept one at a time and in all pairs (thorough: all triples for codecs with <= 8 members) over the boundary values of its declared type (range limits and neighbours, every enum value and neighbours, every flag bit, booleans and neighbours, strings with and without control characters, optional present/absent, arrays, data lengths, raw fields) must decode without warnings and re-encode identically when the description accepts it and must be rejected when it violates a declared constraint; every truncation of every canonical encoding, an excess word after every object, every byte string of length <=2 after every message id and short word sequences for every object id: value or error, never a panic",
        true,
    );
}
