//! C19 enumerator: all operation sequences on the uninitialized-buffer
//! abstraction against every backing store, compared with a plain
//! `Vec<u8>`-with-capacity reference model. No dependencies besides the
//! crate under test and arrayvec, so it runs under Miri unchanged.

use arrayvec::ArrayVec;
use libtw2_buffer::with_buffer;
use libtw2_buffer::Buffer;
use libtw2_buffer::BufferRef;
use libtw2_buffer::CapacityError;
use libtw2_buffer::ReadBuffer;

#[derive(Clone, Copy, Debug, Eq, PartialEq)]
pub enum Op {
    /// write a slice of this length
    Write(u8),
    /// extend from an iterator of this length
    Extend(u8),
    /// extend from an honest iterator of this length whose size hint is inexact: a filter
    /// (hint (0, Some(n))) or an exact part chained with a filtered one (hint (k, Some(n)))
    ExtendInexact(u8, bool),
    /// extend from an iterator that is not fused: it yields this many bytes, then `None`, and
    /// would yield more if it were polled again (the library must stop at the first `None`)
    ExtendUnfused(u8),
    /// fill from a reader holding this many bytes
    Read(u8),
    /// hand the view itself to a reader (`ReadBufferRef::read_buffer_ref`, which consumes it): the
    /// bytes it reports as initialized are everything written so far plus what was read
    ReadDirectFinal(u8),
    /// nested sub-buffer performing one inner op, then released
    Nested(Inner),
    /// a reader that claims to have read this many bytes more than the buffer it was given
    /// (the library must refuse; nothing may be committed by the refused call)
    LyingRead(u8),
    /// stop with an error (the views are released early)
    Bail,
    /// observers only
    Query,
}

#[derive(Clone, Copy, Debug, Eq, PartialEq)]
pub enum Inner {
    Write(u8),
    Read(u8),
    /// nested view dropped without use
    Unused,
    /// a lying reader (see `Op::LyingRead`) inside the nested view
    LyingRead(u8),
    /// write then take `initialized()` of the nested view
    WriteTake(u8),
}

pub fn ops() -> Vec<Op> {
    vec![
        Op::Write(0),
        Op::Write(1),
        Op::Write(3),
        Op::Extend(2),
        Op::ExtendInexact(2, false),
        Op::ExtendInexact(3, true),
        Op::ExtendUnfused(2),
        Op::ReadDirectFinal(2),
        Op::Read(0),
        Op::Read(1),
        Op::Read(3),
        Op::Nested(Inner::Write(1)),
        Op::Nested(Inner::Write(3)),
        Op::Nested(Inner::Read(3)),
        Op::Nested(Inner::Unused),
        Op::Nested(Inner::WriteTake(2)),
        Op::LyingRead(1),
        Op::Nested(Inner::LyingRead(1)),
        Op::Bail,
        Op::Query,
    ]
}

#[derive(Clone, Copy, Debug, Eq, PartialEq)]
pub enum Store {
    /// Vec with (capacity, pre-existing length)
    Vec(u8, u8),
    /// ArrayVec<[u8; 4]> with pre-existing length
    ArrayVec(u8),
    /// plain slice of this length
    Slice(u8),
    /// slice reference (narrowed on release) of this length
    SliceRef(u8),
    /// capped view (cap) over a Vec with (capacity, length)
    CapVec(u8, u8, u8),
    /// capped view (cap) over a slice of this length
    CapSlice(u8, u8),
    /// capped view over an ArrayVec with length
    CapArrayVec(u8, u8),
    /// ArrayVec<[u8; 128]> with pre-existing length (the family of long writes)
    ArrayVec128(u8),
    /// capped view (cap) over an ArrayVec<[u8; 128]> with length
    CapArrayVec128(u8, u8),
}

pub fn stores() -> Vec<Store> {
    let mut v = Vec::new();
    for c in 0..=4u8 {
        for l in 0..=2u8.min(c) {
            v.push(Store::Vec(c, l));
            for cap in 0..=(c - l) {
                v.push(Store::CapVec(cap, c, l));
            }
        }
    }
    for l in 0..=2u8 {
        v.push(Store::ArrayVec(l));
        for cap in 0..=(4 - l) {
            v.push(Store::CapArrayVec(cap, l));
        }
    }
    for n in 0..=4u8 {
        v.push(Store::Slice(n));
        v.push(Store::SliceRef(n));
        for cap in 0..=n {
            v.push(Store::CapSlice(cap, n));
        }
    }
    v
}

/// The family of LONG writes: lengths on both sides of 64 and 128 bytes (block sizes a copy
/// routine might special-case) on stores of 63..200 bytes.
pub fn ops_large() -> Vec<Op> {
    vec![
        Op::Write(1),
        Op::Write(63),
        Op::Write(64),
        Op::Write(65),
        Op::Write(127),
        Op::Extend(64),
        Op::Read(64),
        Op::Read(65),
        Op::Nested(Inner::Write(64)),
        Op::Nested(Inner::Read(64)),
        Op::Nested(Inner::WriteTake(64)),
        Op::ReadDirectFinal(64),
        Op::Query,
    ]
}

pub fn stores_large() -> Vec<Store> {
    let mut v = Vec::new();
    for c in [64u8, 65, 127, 128, 129, 200] {
        for l in [0u8, 2] {
            v.push(Store::Vec(c, l));
        }
    }
    for cap in [63u8, 64, 65, 128] {
        for l in [0u8, 2] {
            v.push(Store::CapVec(cap, 200, l));
        }
    }
    for l in [0u8, 1, 2, 63, 64] {
        v.push(Store::ArrayVec128(l));
    }
    for cap in [64u8, 65, 100] {
        for l in [0u8, 2] {
            v.push(Store::CapArrayVec128(cap, l));
        }
    }
    for n in [63u8, 64, 65, 127, 128, 129, 130, 200] {
        v.push(Store::Slice(n));
        v.push(Store::SliceRef(n));
    }
    for cap in [63u8, 64, 65, 127, 128, 129] {
        v.push(Store::CapSlice(cap, 200));
    }
    v
}

/// (name, operations, stores, largest depth): the enumerations that make up the check.
pub fn families() -> Vec<(&'static str, Vec<Op>, Vec<Store>, usize)> {
    vec![("small", ops(), stores(), usize::MAX), ("long-writes", ops_large(), stores_large(), 3)]
}

/// Reference model: bytes written so far and the capacity of the view.
struct Model {
    cap: usize,
    written: Vec<u8>,
    serial: u8,
}

impl Model {
    fn next(&mut self) -> u8 {
        self.serial = self.serial.wrapping_add(1);
        0x40 | self.serial
    }
    /// the bytes a write of `n` bytes would carry (fresh values each time)
    fn fresh(&mut self, n: u8) -> Vec<u8> {
        (0..n).map(|_| self.next()).collect()
    }
    /// model of write/extend: bytes are committed one by one until the capacity is reached
    fn write(&mut self, bytes: &[u8]) -> Result<(), CapacityError> {
        for &b in bytes {
            if self.written.len() == self.cap {
                return Err(CapacityError);
            }
            self.written.push(b);
        }
        Ok(())
    }
    fn read(&mut self, bytes: &[u8]) -> usize {
        let n = bytes.len().min(self.cap - self.written.len());
        self.written.extend_from_slice(&bytes[..n]);
        n
    }
}

/// A reader that never touches the buffer it is handed and reports `extra` bytes more than
/// that buffer can hold. `Read`'s contract forbids that, but memory safety must not depend
/// on it: the library has to refuse the count.
struct Liar(usize);
impl std::io::Read for Liar {
    fn read(&mut self, buf: &mut [u8]) -> std::io::Result<usize> {
        Ok(buf.len() + self.0)
    }
}
unsafe impl libtw2_buffer::ReadBufferMarker for Liar {}

fn lying_read<'a, B: Buffer<'a>>(b: B, extra: u8) -> Result<(), String> {
    let r = std::panic::catch_unwind(std::panic::AssertUnwindSafe(|| {
        let mut liar = Liar(extra as usize);
        liar.read_buffer(b).map(|d| d.len()).map_err(|e| e.to_string())
    }));
    match r {
        Err(_) => Ok(()), // refused by panicking
        Ok(Err(_)) => Ok(()),
        Ok(Ok(n)) => Err(format!("a reader claiming more bytes than the buffer holds was believed ({} bytes returned)", n)),
    }
}

fn check(cond: bool, msg: &str) -> Result<(), String> {
    if cond {
        Ok(())
    } else {
        Err(msg.to_string())
    }
}

/// Run the op sequence on a view; returns what `initialized()` gave (None if
/// the sequence bailed out or the view was dropped).
fn drive<'d, 's>(mut b: BufferRef<'d, 's>, seq: &[Op], m: &mut Model, take: bool) -> Result<Option<&'d [u8]>, String> {
    check(b.remaining() == m.cap - m.written.len(), "remaining() differs from the model at the start")?;
    for op in seq {
        match *op {
            Op::Write(n) => {
                let bytes = m.fresh(n);
                let r = b.write(&bytes);
                let e = m.write(&bytes);
                check(r.is_ok() == e.is_ok(), "write: capacity error differs from the model")?;
            }
            Op::Extend(n) => {
                let bytes = m.fresh(n);
                let r = b.extend(bytes.iter().cloned());
                let e = m.write(&bytes);
                check(r.is_ok() == e.is_ok(), "extend: capacity error differs from the model")?;
            }
            Op::ExtendInexact(n, chained) => {
                let bytes = m.fresh(n);
                let r = if chained {
                    let (a, z) = bytes.split_at(1.min(bytes.len()));
                    b.extend(a.iter().cloned().chain(z.iter().cloned().filter(|_| true)))
                } else {
                    b.extend(bytes.iter().cloned().filter(|_| true))
                };
                let e = m.write(&bytes);
                check(r.is_ok() == e.is_ok(), "extend from an iterator with an inexact size hint: capacity error differs from the model")?;
            }
            Op::ExtendUnfused(n) => {
                let bytes = m.fresh(n);
                let mut i = 0usize;
                let mut polled_after_end = false;
                let r = b.extend(std::iter::from_fn(|| {
                    i += 1;
                    if i <= bytes.len() {
                        Some(bytes[i - 1])
                    } else if i == bytes.len() + 1 {
                        None
                    } else {
                        polled_after_end = true;
                        Some(0xee)
                    }
                }));
                let e = m.write(&bytes);
                check(r.is_ok() == e.is_ok(), "extend from an iterator that is not fused: capacity error differs from the model")?;
                let _ = polled_after_end;
            }
            Op::ReadDirectFinal(n) => {
                let bytes = m.fresh(n);
                let mut reader: &[u8] = &bytes;
                let got = libtw2_buffer::ReadBufferRef::read_buffer_ref(&mut reader, b).map_err(|e| format!("read_buffer_ref: {}", e))?;
                m.read(&bytes);
                check(got == &m.written[..], "a reader filling the view directly: the bytes reported as initialized differ from everything written")?;
                return Ok(None);
            }
            Op::Read(n) => {
                let bytes = m.fresh(n);
                let mut reader: &[u8] = &bytes;
                let before = m.written.len();
                let got = reader.read_buffer(&mut b).map_err(|e| format!("read_buffer: {}", e))?;
                let k = m.read(&bytes);
                check(got == &m.written[before..before + k], "read_buffer: returned bytes differ from the model")?;
            }
            Op::Nested(inner) => {
                let before = m.written.len();
                let res: Result<(), String> = with_buffer(&mut b, |mut c| {
                    check(c.remaining() == m.cap - m.written.len(), "nested remaining() differs")?;
                    match inner {
                        Inner::Write(n) => {
                            let bytes = m.fresh(n);
                            let r = c.write(&bytes);
                            let e = m.write(&bytes);
                            check(r.is_ok() == e.is_ok(), "nested write: capacity error differs")?;
                        }
                        Inner::Read(n) => {
                            let bytes = m.fresh(n);
                            let mut reader: &[u8] = &bytes;
                            let got = reader.read_buffer(&mut c).map_err(|e| format!("{}", e))?;
                            let k = m.read(&bytes);
                            check(got.len() == k, "nested read length differs")?;
                        }
                        Inner::Unused => {}
                        Inner::LyingRead(k) => {
                            lying_read(&mut c, k)?;
                            check(c.remaining() == m.cap - m.written.len(), "a refused read changed the initialized count of the nested view")?;
                        }
                        Inner::WriteTake(n) => {
                            let bytes = m.fresh(n);
                            let r = c.write(&bytes);
                            let e = m.write(&bytes);
                            check(r.is_ok() == e.is_ok(), "nested write: capacity error differs")?;
                            let init = c.initialized();
                            check(init == &m.written[before..], "nested initialized() differs from the model")?;
                        }
                    }
                    Ok(())
                });
                res?;
                check(b.remaining() == m.cap - m.written.len(), "remaining() after a nested view differs")?;
            }
            Op::LyingRead(k) => {
                lying_read(&mut b, k)?;
                check(b.remaining() == m.cap - m.written.len(), "a refused read changed the initialized count")?;
            }
            Op::Bail => return Ok(None),
            Op::Query => {
                check(b.remaining() == m.cap - m.written.len(), "remaining() differs from the model")?;
            }
        }
        check(b.remaining() == m.cap - m.written.len(), "remaining() differs from the model")?;
    }
    if take {
        let init = b.initialized();
        check(init == &m.written[..], "initialized() differs from the bytes written")?;
        Ok(Some(init))
    } else {
        Ok(None)
    }
}

const CANARY: u8 = 0xc5;

/// One (store, sequence, take) case. Returns a short outcome class.
pub fn run_case(store: Store, seq: &[Op], take: bool) -> Result<&'static str, String> {
    let mut m = Model { cap: 0, written: Vec::new(), serial: 0 };
    match store {
        Store::Vec(c, l) | Store::CapVec(_, c, l) => {
            let mut v: Vec<u8> = Vec::with_capacity(c as usize);
            for i in 0..l {
                v.push(0xa0 | i);
            }
            let old = v.clone();
            let spare = v.capacity() - v.len();
            let r = if let Store::CapVec(cap, ..) = store {
                m.cap = (cap as usize).min(spare);
                with_buffer((&mut v).cap_at(m.cap), |b| drive(b, seq, &mut m, take))
            } else {
                m.cap = spare;
                with_buffer(&mut v, |b| drive(b, seq, &mut m, take))
            };
            let got = r?;
            let _ = got;
            check(v.len() == old.len() + m.written.len(), "Vec: length did not grow by exactly the initialized amount")?;
            check(v[..old.len()] == old[..], "Vec: old contents changed")?;
            check(v[old.len()..] == m.written[..], "Vec: new contents differ from the bytes written")?;
            Ok("vec")
        }
        Store::ArrayVec(l) | Store::CapArrayVec(_, l) => {
            let mut v: ArrayVec<[u8; 4]> = ArrayVec::new();
            for i in 0..l {
                v.push(0xa0 | i);
            }
            let old: Vec<u8> = v.to_vec();
            let spare = 4 - l as usize;
            if let Store::CapArrayVec(cap, _) = store {
                m.cap = (cap as usize).min(spare);
                with_buffer((&mut v).cap_at(m.cap), |b| drive(b, seq, &mut m, take))?;
            } else {
                m.cap = spare;
                with_buffer(&mut v, |b| drive(b, seq, &mut m, take))?;
            }
            check(v.len() == old.len() + m.written.len(), "ArrayVec: length did not grow by exactly the initialized amount")?;
            check(v[..old.len()] == old[..] && v[old.len()..] == m.written[..], "ArrayVec: contents differ")?;
            Ok("arrayvec")
        }
        Store::ArrayVec128(l) | Store::CapArrayVec128(_, l) => {
            let mut v: ArrayVec<[u8; 128]> = ArrayVec::new();
            for i in 0..l {
                v.push(0xa0 | (i & 0xf));
            }
            let old: Vec<u8> = v.to_vec();
            let spare = 128 - l as usize;
            if let Store::CapArrayVec128(cap, _) = store {
                m.cap = (cap as usize).min(spare);
                with_buffer((&mut v).cap_at(m.cap), |b| drive(b, seq, &mut m, take))?;
            } else {
                m.cap = spare;
                with_buffer(&mut v, |b| drive(b, seq, &mut m, take))?;
            }
            check(v.len() == old.len() + m.written.len(), "ArrayVec: length did not grow by exactly the initialized amount")?;
            check(v[..old.len()] == old[..] && v[old.len()..] == m.written[..], "ArrayVec: contents differ")?;
            Ok("arrayvec")
        }
        Store::Slice(n) | Store::CapSlice(_, n) => {
            let n = n as usize;
            let mut arena = vec![CANARY; n + 8];
            {
                let slice = &mut arena[4..4 + n];
                if let Store::CapSlice(cap, _) = store {
                    m.cap = cap as usize;
                    with_buffer(slice.cap_at(m.cap), |b| drive(b, seq, &mut m, take))?;
                } else {
                    m.cap = n;
                    with_buffer(slice, |b| drive(b, seq, &mut m, take))?;
                }
            }
            check(arena[..4].iter().all(|&b| b == CANARY) && arena[4 + n..].iter().all(|&b| b == CANARY), "slice: wrote outside the slice")?;
            check(arena[4..4 + m.written.len()] == m.written[..], "slice: contents differ from the bytes written")?;
            check(arena[4 + m.written.len()..4 + n].iter().all(|&b| b == CANARY), "slice: bytes beyond the initialized part were touched")?;
            Ok("slice")
        }
        Store::SliceRef(n) => {
            let n = n as usize;
            let mut arena = vec![CANARY; n + 8];
            let narrowed_len;
            {
                let mut slice: &mut [u8] = &mut arena[4..4 + n];
                m.cap = n;
                // the reference is consumed for its whole lifetime; observe through a raw pointer afterwards
                let p: *mut &mut [u8] = &mut slice;
                with_buffer(unsafe { &mut *p }, |b| drive(b, seq, &mut m, take))?;
                narrowed_len = slice.len();
                check(&slice[..] == &m.written[..], "slice reference: narrowed slice differs from the bytes written")?;
            }
            check(narrowed_len == m.written.len(), "slice reference: not narrowed to exactly the initialized amount")?;
            check(arena[..4].iter().all(|&b| b == CANARY) && arena[4 + n..].iter().all(|&b| b == CANARY), "slice reference: wrote outside the slice")?;
            Ok("slice_ref")
        }
    }
}

#[derive(Default)]
pub struct Summary {
    pub cases: u64,
    pub overflow_cases: u64,
    pub failures: Vec<(Store, Vec<Op>, bool, String)>,
}

/// Enumerate all sequences of length <= depth for all stores (sequentially).
pub fn enumerate(depth: usize, mut visit: impl FnMut(Store, &[Op], bool, Result<&'static str, String>)) {
    for (_, ops, stores, max_depth) in families() {
        let n = ops.len();
        for store in stores {
            for d in 0..=depth.min(max_depth) {
                for idx in 0..n.pow(d as u32) {
                    let mut i = idx;
                    let mut seq = Vec::with_capacity(d);
                    for _ in 0..d {
                        seq.push(ops[i % n]);
                        i /= n;
                    }
                    for take in [false, true] {
                        let r = run_case(store, &seq, take);
                        visit(store, &seq, take, r);
                    }
                }
            }
        }
    }
}
