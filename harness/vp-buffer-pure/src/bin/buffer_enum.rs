//! Stand-alone runner of the C19 enumerator (used under Miri).
fn main() {
    let depth: usize = std::env::args().nth(1).and_then(|s| s.parse().ok()).unwrap_or(1);
    let mut cases = 0u64;
    let mut failures = 0u64;
    vp_buffer_pure::enumerate(depth, |store, seq, take, r| {
        cases += 1;
        if let Err(e) = r {
            failures += 1;
            println!("FAIL store={:?} seq={:?} take={} : {}", store, seq, take, e);
        }
    });
    println!("BUFFER-ENUM depth={} cases={} failures={}", depth, cases, failures);
    if failures != 0 {
        std::process::exit(1);
    }
}
