//! C19: the uninitialized-buffer abstraction never overruns and counts
//! exactly. (a) all operation sequences up to a depth on every backing store
//! against a Vec-with-capacity model (natively, in parallel); (b) the same
//! enumerator under Miri (out-of-bounds / use-after-free monitor); (c) thorough:
//! this enumerator and those of C05, C06, C07, C11, C16, C17 in an
//! AddressSanitizer build.

use std::process::Command;
use std::sync::Arc;
use std::sync::Mutex;
use vp_core::rayon::prelude::*;
use vp_core::serde_json::json;
use vp_core::Run;
use vp_core::Tier;

/// Child mode: the enumerator at a small depth, one line per case BEFORE it runs, so that a
/// process abort (a panic while unwinding, a violated `unsafe` precondition caught by the
/// standard library) can be attributed to a case by the parent.
fn canary_child(depth: usize) -> ! {
    use std::io::Write;
    let out = std::io::stdout();
    let mut failures = 0u64;
    // refused operations panic by design (hundreds of thousands of times, always the same
    // message): every distinct message is printed twice at most
    static SEEN: Mutex<Option<std::collections::HashMap<String, u32>>> = Mutex::new(None);
    std::panic::set_hook(Box::new(|info| {
        let msg = format!("{}", info).replace('\n', " ");
        let mut print = true;
        if let Ok(mut g) = SEEN.lock() {
            let c = g.get_or_insert_with(Default::default).entry(msg.clone()).or_insert(0);
            *c += 1;
            print = *c <= 2;
        }
        if print {
            eprintln!("panicked: {}", msg);
        }
    }));
    for (_, ops, stores, max_depth) in vp_buffer_pure::families() {
      let n = ops.len();
      for store in stores {
        for d in 0..=depth.min(max_depth) {
            for idx in 0..n.pow(d as u32) {
                let mut i = idx;
                let mut seq = Vec::with_capacity(d);
                for _ in 0..d {
                    seq.push(ops[i % n]);
                    i /= n;
                }
                for take in [false, true] {
                    {
                        let mut o = out.lock();
                        let _ = writeln!(o, "CASE {:?} {:?} take={}", store, seq, take);
                        let _ = o.flush();
                    }
                    let r = std::panic::catch_unwind(|| vp_buffer_pure::run_case(store, &seq, take));
                    if !matches!(r, Ok(Ok(_))) {
                        failures += 1;
                    }
                }
            }
        }
      }
    }
    println!("CANARY-DONE failures={}", failures);
    std::process::exit(0)
}

/// Parent side: run the canary; a death by signal is a verdict about the library (the child
/// executes nothing but the library and the enumerator), reported with the case it died in.
fn canary(run: &Arc<Run>) -> bool {
    let exe = std::env::current_exe().unwrap_or_else(|e| vp_core::machinery_error(&format!("current_exe: {}", e)));
    let out = Command::new(exe).arg("canary-child").output().unwrap_or_else(|e| vp_core::machinery_error(&format!("cannot start the canary: {}", e)));
    let stdout = String::from_utf8_lossy(&out.stdout);
    let stderr = String::from_utf8_lossy(&out.stderr);
    let cases = stdout.lines().filter(|l| l.starts_with("CASE ")).count() as u64;
    run.add_evals(cases);
    if stdout.contains("CANARY-DONE") && out.status.success() {
        run.class("canary:completed", || json!({"cases": cases}));
        return true;
    }
    let last = stdout.lines().rev().find(|l| l.starts_with("CASE ")).unwrap_or("(no case started)").to_string();
    let why: Vec<&str> = stderr.lines().filter(|l| l.contains("panicked") || l.contains("precondition") || l.contains("abort")).collect();
    let tail = why.iter().rev().take(4).rev().cloned().collect::<Vec<_>>().join(" | ");
    run.violation(
        "c19:process-abort-in-isolated-enumerator",
        &format!("the isolated enumerator died ({:?}) in {}: {}", out.status, last, tail),
        json!({"case": last, "status": format!("{:?}", out.status), "stderr_tail": tail}),
    );
    false
}

fn native(run: &Arc<Run>, depth: usize) {
    for (family, ops, stores, max_depth) in vp_buffer_pure::families() {
        native_family(run, family, &ops, &stores, depth.min(max_depth));
    }
}

fn native_family(run: &Arc<Run>, family: &str, ops: &[vp_buffer_pure::Op], stores: &[vp_buffer_pure::Store], depth: usize) {
    let n = ops.len();
    let total: usize = (0..=depth).map(|d| n.pow(d as u32)).sum();
    stores.par_iter().for_each(|&store| {
        let mut counts: std::collections::BTreeMap<String, u64> = Default::default();
        for idx in 0..total {
            let mut i = idx;
            let mut d = 0;
            while i >= n.pow(d as u32) {
                i -= n.pow(d as u32);
                d += 1;
            }
            let mut seq = Vec::with_capacity(d);
            for _ in 0..d {
                seq.push(ops[i % n]);
                i /= n;
            }
            for take in [false, true] {
                match vp_core::catch(|| vp_buffer_pure::run_case(store, &seq, take)) {
                    Ok(Ok(c)) => {
                        let bail = seq.contains(&vp_buffer_pure::Op::Bail);
                        *counts.entry(format!("{}:{}:{}:{}", family, c, if bail { "early-exit" } else { "complete" }, if take { "taken" } else { "dropped" })).or_insert(0) += 1;
                    }
                    Ok(Err(msg)) => {
                        run.violation(&format!("c19:{}", msg.split(':').next().unwrap_or("")), &format!("{:?} {:?} take={}: {}", store, seq, take, msg), json!({"store": format!("{:?}", store), "ops": format!("{:?}", seq), "take_initialized": take}));
                    }
                    Err(p) => {
                        run.violation(&format!("c19:{}", vp_core::panic_sig(&p)), &format!("{:?} {:?} take={}: {}", store, seq, take, p), json!({"store": format!("{:?}", store), "ops": format!("{:?}", seq), "take_initialized": take}));
                    }
                }
            }
        }
        for (k, v) in counts {
            run.class_n(&k, v, || json!({"store": format!("{:?}", store), "count": v}));
        }
        run.add_evals(2 * total as u64);
    });
}

fn sub(run: &Arc<Run>, name: &str, cmd: &mut Command, log: &str, results: &Mutex<Vec<vp_core::serde_json::Value>>) {
    let t0 = std::time::Instant::now();
    let out = cmd.output();
    let (code, text) = match out {
        Ok(o) => (o.status.code().unwrap_or(-1), format!("{}\n{}", String::from_utf8_lossy(&o.stdout), String::from_utf8_lossy(&o.stderr))),
        Err(e) => vp_core::machinery_error(&format!("cannot start {}: {}", name, e)),
    };
    let _ = std::fs::create_dir_all("/verif/target-asan/logs");
    let _ = std::fs::write(log, &text);
    let sanitizer = text.contains("ERROR: AddressSanitizer") || text.contains("Undefined Behavior") || text.contains("error: Undefined");
    let summary = text.lines().rev().find(|l| l.contains("evaluations=") || l.contains("BUFFER-ENUM")).unwrap_or("").to_string();
    results.lock().unwrap().push(json!({"run": name, "exit_code": code, "wall_s": t0.elapsed().as_secs_f64(), "summary": summary, "memory_error_reported": sanitizer}));
    println!("  [{}] exit={} {:.1}s {}", name, code, t0.elapsed().as_secs_f64(), summary);
    if sanitizer {
        run.violation(&format!("c19:memory-error:{}", name), &format!("{} reports a memory error; log {}", name, log), json!({"sub_run": name, "log": log}));
    } else if code == 1 && summary.contains("BUFFER-ENUM") && summary.contains("failures=") && !summary.contains("failures=0") {
        // the enumerator bodies are this property's own oracle: a mismatch with the model
        // under the monitor is a C19 violation like the native one
        run.violation(&format!("c19:model-mismatch-under-monitor:{}", name.split(':').next().unwrap_or("")), &format!("{}: {}; log {}", name, summary, log), json!({"sub_run": name, "log": log}));
    } else if code != 0 {
        // the sub-check's own verdict belongs to its own property; a crash of the monitor run is machinery
        if !text.contains("VIOLATION property=") && !text.contains("KNOWN-FINDING") {
            vp_core::machinery_error(&format!("{} exited with {} (log {})", name, code, log));
        }
    }
    run.class(&format!("monitor:{}", name.split(':').next().unwrap_or("")), || json!({"run": name, "summary": summary}));
}

fn main() {
    if std::env::args().nth(1).as_deref() == Some("canary-child") {
        canary_child(2);
    }
    let run = Run::new("C19", "exploration");
    let thorough = run.tier == Tier::Thorough;
    // (a0) the same enumerator at depth 2 in a child process: an abort there is reported as a
    // violation instead of taking this process down; the in-process sweep runs only if it survived
    let results: Mutex<Vec<vp_core::serde_json::Value>> = Mutex::new(Vec::new());
    // (b) Miri: same enumerator bodies, out-of-bounds / use-after-free monitor; single-threaded,
    // so it runs beside the native sweep
    let miri_depth = if thorough { "2" } else { "1" };
    std::thread::scope(|sc| {
        sc.spawn(|| {
            let mut c = Command::new("cargo");
            c.current_dir("/verif/harness")
                .env("CARGO_TARGET_DIR", "/verif/target-miri")
                .env("MIRIFLAGS", "-Zmiri-disable-stacked-borrows")
                .env("CARGO_NET_OFFLINE", "true")
                .args(["+nightly", "miri", "run", "--offline", "-p", "vp-buffer-pure", "--bin", "buffer_enum", "--", miri_depth]);
            sub(&run, &format!("miri:buffer-enumerator-depth-{}", miri_depth), &mut c, "/verif/target-asan/logs/miri.log", &results);
        });
        if canary(&run) {
            native(&run, if thorough { 4 } else { 3 });
        }
    });
    // (c) AddressSanitizer build of the enumerators (thorough)
    if thorough {
        let mut b = Command::new("cargo");
        b.current_dir("/verif/harness")
            .env("RUSTFLAGS", "--cfg libtw2_verif -Aunexpected_cfgs -Zsanitizer=address")
            .env("CARGO_TARGET_DIR", "/verif/target-asan")
            .env("CARGO_NET_OFFLINE", "true")
            .args(["+nightly", "build", "--offline", "--release", "--target", "x86_64-unknown-linux-gnu", "-p", "vp-buffer-pure", "-p", "vp-net", "-p", "vp-codec", "-p", "vp-snap", "-p", "vp-files"]);
        let o = b.output().unwrap_or_else(|e| vp_core::machinery_error(&format!("cannot start the ASan build: {}", e)));
        if !o.status.success() {
            let _ = std::fs::create_dir_all("/verif/target-asan/logs");
            let _ = std::fs::write("/verif/target-asan/logs/build.log", &o.stderr);
            vp_core::machinery_error("AddressSanitizer build failed (log /verif/target-asan/logs/build.log)");
        }
        let dir = "/verif/target-asan/x86_64-unknown-linux-gnu/release";
        let mut c = Command::new(format!("{}/buffer_enum", dir));
        c.arg("3").env("ASAN_OPTIONS", "detect_leaks=0");
        sub(&run, "asan:buffer-enumerator-depth-3", &mut c, "/verif/target-asan/logs/buffer_enum.log", &results);
        for bin in ["c05", "c06", "c07", "c11", "c16", "c17"] {
            let mut c = Command::new(format!("{}/{}", dir, bin));
            c.arg("quick")
                .env("VERIF_TIER", "quick")
                .env("ASAN_OPTIONS", "detect_leaks=0")
                .env("VERIF_EVIDENCE_DIR", "/verif/target-asan/evidence")
                .env("VERIF_REPLAYS_DIR", "/verif/target-asan/replays");
            sub(&run, &format!("asan:{}-quick-enumerator", bin), &mut c, &format!("/verif/target-asan/logs/{}.log", bin), &results);
        }
    }
    run.set("monitor_runs", json!(*results.lock().unwrap()));
    run.assume("Miri runs with -Zmiri-disable-stacked-borrows: the property speaks about out-of-bounds and use-after-free accesses, not about the (experimental) aliasing model, which the library's deliberate 'two references, disjoint use' pattern does not satisfy");
    run.assume("Miri and AddressSanitizer are monitors on the enumerated executions, not deciding techniques; the sanitizer build instruments Rust code of the harness and the repository crates (not the C/C++ reference libraries, not std)");
    run.finish(
        &format!("all operation sequences of length <= {} over 20 operations (write 0/1/3, extend from exact-size iterators, from iterators whose size hint is inexact and from one that is not fused, a reader handed the view itself, reader fill 0/1/3, a reader that claims one byte more than it was given, five nested-view uses incl. such a reader, early exit, query) x take/drop of the view, on every backing store (Vec with capacity 0..4 and length 0..2, ArrayVec<4>, slice, slice reference, capped views of each with every cap) against a Vec-with-capacity reference model with canaries; a second family of long writes (1, 63, 64, 65, 127 bytes, 64-byte extends / reads / nested views) up to depth 3 on stores of 63..200 bytes (Vec, ArrayVec<128>, slice, slice reference, capped views) (depth 2 first in a child process, so that an abort is attributed to a case); Miri on the same enumerator (depth {}); thorough: AddressSanitizer build of this enumerator and of the C05/C06/C07/C11/C16/C17 quick enumerators", if thorough { 4 } else { 3 }, miri_depth),
        true,
    );
}
