//! C18: server-info parsing is total; merging parts is order-free and
//! idempotent.

use libtw2_serverbrowse::protocol::parse_response;
use libtw2_serverbrowse::protocol::PartialServerInfo;
use libtw2_serverbrowse::protocol::Response;
use std::sync::Arc;
use vp_core::rayon::prelude::*;
use vp_core::serde_json::json;
use vp_core::LocalClasses;
use vp_core::Run;
use vp_core::Tier;

const PAD: &[u8] = b"\xff\xff\xff\xff\xff\xff\xff\xff\xff\xff";

fn s(out: &mut Vec<u8>, x: &str) {
    out.extend_from_slice(x.as_bytes());
    out.push(0);
}

#[derive(Clone, Debug)]
struct Client {
    name: String,
    score: i32,
}

fn client(i: usize) -> Client {
    // every fourth client shares its name with others (as "(connecting)" players do on real
    // servers); they differ in their score
    Client { name: if i % 4 == 3 { "(connecting)".to_string() } else { format!("p{:02}", i) }, score: i as i32 * 3 - 5 }
}

/// Fields of an info datagram as strings, so that any of them can be replaced.
fn info_fields(kind: &str, token: &str, nclients: usize, maxc: usize, offset: Option<usize>, packet_no: Option<&str>) -> Vec<String> {
    let mut f: Vec<String> = vec![token.into()];
    if let Some(p) = packet_no {
        f.push(p.into());
        f.push("".into()); // reserved
        return f;
    }
    f.push("0.6.4".into());
    f.push("server name".into());
    if kind == "inf3-7" {
        f.push("host".into());
    }
    f.push("dm1".into());
    if kind == "iext" {
        f.push("123456".into()); // map_crc
        f.push("5805".into()); // map_size
    }
    f.push("DM".into());
    f.push("0".into()); // flags
    if kind == "inf2" {
        f.push("-1".into()); // progression
    }
    f.push(format!("{}", nclients)); // num_players
    f.push(format!("{}", maxc)); // max_players
    if kind != "inf2" {
        f.push(format!("{}", nclients)); // num_clients
        f.push(format!("{}", maxc)); // max_clients
    }
    if let Some(o) = offset {
        f.push(format!("{}", o));
    }
    if kind == "iext" {
        f.push("".into());
    }
    f
}

fn client_fields(kind: &str, c: &Client) -> Vec<String> {
    let mut f = vec![c.name.clone()];
    if kind != "inf2" {
        f.push("clan".into());
        f.push("-1".into());
    }
    f.push(format!("{}", c.score));
    if kind != "inf2" {
        f.push("1".into());
    }
    if kind == "iext" || kind == "iex+" {
        f.push("".into());
    }
    f
}

fn header(kind: &str) -> Vec<u8> {
    let mut h = PAD.to_vec();
    h.extend_from_slice(match kind {
        "inf2" => b"inf2",
        "inf3" => b"inf3",
        "dtsf" => b"dtsf",
        "iext" => b"iext",
        "iex+" => b"iex+",
        _ => unreachable!(),
    });
    h
}

fn datagram(kind: &str, fields: &[String]) -> Vec<u8> {
    let mut d = header(kind);
    for f in fields {
        s(&mut d, f);
    }
    d
}

fn parse_partial(d: &[u8]) -> Option<PartialServerInfo> {
    match parse_response(d)? {
        Response::Info664(x) => x.parse(),
        Response::Info6Ex(x) => x.parse(),
        Response::Info6ExMore(x) => x.parse(),
        _ => None,
    }
}

/// Everything `parse_response` + `parse` can do with a datagram.
fn parse_all(d: &[u8]) -> String {
    match parse_response(d) {
        None => "none".into(),
        Some(r) => match r {
            Response::List5(l) => format!("list5:{}", l.0.iter().map(|a| a.unpack()).count().min(3)),
            Response::List6(l) => format!("list6:{}", l.0.iter().map(|a| a.unpack()).count().min(3)),
            Response::List7(l) => format!("list7:{}", l.2.iter().map(|a| a.unpack()).count().min(3)),
            Response::Count(c) => format!("count:{}", (c.0 > 0) as u8),
            Response::Count7(c) => format!("count7:{}", (c.2 > 0) as u8),
            Response::Token7(_) => "token7".into(),
            Response::Info5(x) => format!("info5:{}", x.parse().map(|i| i.clients.len().min(3) as i32).unwrap_or(-1)),
            Response::Info6(x) => format!("info6:{}", x.parse().map(|i| i.clients.len().min(3) as i32).unwrap_or(-1)),
            Response::Info6Ddper(x) => format!("info6ddper:{}", x.parse().map(|i| i.clients.len().min(3) as i32).unwrap_or(-1)),
            Response::Info7(x) => format!("info7:{}", x.parse().map(|i| i.clients.len().min(3) as i32).unwrap_or(-1)),
            Response::Info664(x) => format!("info664:{}", x.parse().map(|mut p| p.get_info().is_some() as i32).unwrap_or(-1)),
            Response::Info6Ex(x) => format!("info6ex:{}", x.parse().map(|mut p| p.get_info().is_some() as i32).unwrap_or(-1)),
            Response::Info6ExMore(x) => format!("info6exmore:{}", x.parse().map(|mut p| p.take_info().is_some() as i32).unwrap_or(-1)),
        },
    }
}

fn parsing(run: &Arc<Run>, thorough: bool, window: usize) {
    let vals: Vec<String> = [
        "-2147483648", "-2147483649", "-1", "0", "1", "15", "16", "17", "23", "24", "25", "63", "64", "65", "127", "128", "2147483647", "2147483648", "", "x", "1x", " 1", "+1", "-0", "99999999999999999999",
    ]
    .iter()
    .map(|s| s.to_string())
    .collect();
    let mut inputs: Vec<(String, Vec<u8>)> = Vec::new();
    // string-encoded info kinds
    for kind in ["inf2", "inf3", "dtsf", "iext", "iex+"] {
        let (off, pno) = match kind {
            "dtsf" => (Some(0), None),
            "iex+" => (None, Some("1")),
            _ => (None, None),
        };
        let base = info_fields(kind, "5", 2, 16, off, pno);
        let mut fields = base.clone();
        for i in 0..2 {
            fields.extend(client_fields(kind, &client(i)));
        }
        inputs.push((format!("{}:valid", kind), datagram(kind, &fields)));
        for fi in 0..fields.len() {
            for v in &vals {
                let mut f = fields.clone();
                f[fi] = v.clone();
                inputs.push((format!("{}:field{}", kind, fi), datagram(kind, &f)));
            }
            if thorough {
                for fj in (fi + 1)..fields.len().min(fi + window) {
                    for v in &vals {
                        for w in &vals {
                            let mut f = fields.clone();
                            f[fi] = v.clone();
                            f[fj] = w.clone();
                            inputs.push((format!("{}:pair", kind), datagram(kind, &f)));
                        }
                    }
                }
            }
        }
        let d = datagram(kind, &fields);
        for cut in 0..d.len() {
            inputs.push((format!("{}:truncated", kind), d[..cut].to_vec()));
        }
        // "dp" variant of inf3
        if kind == "inf3" {
            let mut dp = d.clone();
            dp[..6].copy_from_slice(b"dp\x01\x02\x03\x04");
            inputs.push(("inf3-ddper:valid".into(), dp.clone()));
            for cut in 0..dp.len() {
                inputs.push(("inf3-ddper:truncated".into(), dp[..cut].to_vec()));
            }
        }
        // many clients: 0..=70 clients announced and present
        for n in [0usize, 1, 15, 16, 17, 23, 24, 25, 63, 64, 65, 70] {
            let mut f = info_fields(kind, "5", n, 64.max(n), off, pno);
            for i in 0..n {
                f.extend(client_fields(kind, &client(i)));
            }
            inputs.push((format!("{}:clients{}", kind, n), datagram(kind, &f)));
            if kind == "dtsf" {
                for o in [0usize, 1, 23, 24, 40, 63, 64, 65, 1000, 2147483647] {
                    let mut f = info_fields(kind, "5", n, 64.max(n), Some(o), None);
                    for i in 0..n.min(24) {
                        f.extend(client_fields(kind, &client(i)));
                    }
                    inputs.push((format!("{}:offset{}", kind, o), datagram(kind, &f)));
                }
            }
            if kind == "iex+" {
                for p in ["0", "1", "2", "63", "64", "65", "-1"] {
                    let mut f = info_fields(kind, "5", n, 64, None, Some(p));
                    for i in 0..n.min(30) {
                        f.extend(client_fields(kind, &client(i)));
                    }
                    inputs.push((format!("{}:packet_no{}", kind, p), datagram(kind, &f)));
                }
            }
        }
    }
    // 0.7 info (varint ints), lists, counts, token
    {
        let enc = |v: i32, out: &mut Vec<u8>| {
            let sign = v < 0;
            let mut bits: u32 = if sign { !(v as u32) } else { v as u32 };
            let mut b = (bits & 0x3f) as u8 | if sign { 0x40 } else { 0 };
            bits >>= 6;
            loop {
                if bits != 0 {
                    out.push(b | 0x80);
                    b = (bits & 0x7f) as u8;
                    bits >>= 7;
                } else {
                    out.push(b);
                    break;
                }
            }
        };
        let ints = [i32::MIN, -1, 0, 1, 15, 16, 17, 63, 64, 65, 127, 128, i32::MAX];
        let head = b"\x21\x01\x02\x03\x04\x05\x06\x07\x08\xff\xff\xff\xffinf3";
        for which in 0..8 {
            for &x in &ints {
                let mut d = head.to_vec();
                let mut vals = [5, 0, 2, 2, 16, 2, 16]; // token, flags, skill, num_players, max_players, num_clients, max_clients
                if which < 7 {
                    vals[which] = x;
                }
                enc(vals[0], &mut d);
                s(&mut d, "0.7.5");
                s(&mut d, "name");
                s(&mut d, "host");
                s(&mut d, "dm1");
                s(&mut d, "DM");
                enc(vals[1], &mut d);
                enc(vals[2], &mut d);
                enc(vals[3], &mut d);
                enc(vals[4], &mut d);
                enc(vals[5], &mut d);
                enc(vals[6], &mut d);
                for i in 0..2 {
                    s(&mut d, &client(i).name);
                    s(&mut d, "clan");
                    enc(if which == 7 { x } else { -1 }, &mut d);
                    enc(3, &mut d);
                    enc(0, &mut d);
                }
                for cut in (0..=d.len()).rev().take(if x == 0 { d.len() + 1 } else { 1 }) {
                    inputs.push(("inf3-7".into(), d[..cut].to_vec()));
                }
            }
        }
        // the same datagram with each integer field written in a non-canonical way: overlong
        // forms, five bytes with padding bits set, the sign bit with all digits zero
        {
            const ODD: [&[u8]; 10] = [b"\x80\x00", b"\xc0\x00", b"\x80\x80\x80\x80\x00", b"\xc0\x80\x80\x80\x10", b"\x80\x80\x80\x80\x10", b"\xc0\x80\x80\x80\xf0", b"\xff\xff\xff\xff\xff", b"\xff\xff\xff\xff\x1f", b"\xbf\xff\xff\xff\x7f", b"\xc0\x80\x80\x80\x70"];
            for which in 0..8 {
                for odd in ODD {
                    let mut d = head.to_vec();
                    let put = |k: usize, v: i32, d: &mut Vec<u8>| {
                        if k == which {
                            d.extend_from_slice(odd)
                        } else {
                            enc(v, d)
                        }
                    };
                    put(0, 5, &mut d);
                    s(&mut d, "0.7.5");
                    s(&mut d, "name");
                    s(&mut d, "host");
                    s(&mut d, "dm1");
                    s(&mut d, "DM");
                    put(1, 0, &mut d);
                    put(2, 2, &mut d);
                    put(3, 1, &mut d);
                    put(4, 16, &mut d);
                    put(5, 1, &mut d);
                    put(6, 16, &mut d);
                    s(&mut d, &client(0).name);
                    s(&mut d, "clan");
                    put(7, -1, &mut d);
                    enc(3, &mut d);
                    enc(0, &mut d);
                    inputs.push(("inf3-7:non-canonical-int".into(), d));
                }
            }
        }
        for (name, hdr) in [("list5", &b"\xff\xff\xff\xff\xff\xff\xff\xff\xff\xfflist"[..]), ("list6", b"\xff\xff\xff\xff\xff\xff\xff\xff\xff\xfflis2"), ("count", b"\xff\xff\xff\xff\xff\xff\xff\xff\xff\xffsiz2"), ("list7", b"\x21\x01\x02\x03\x04\x05\x06\x07\x08\xff\xff\xff\xfflis2"), ("count7", b"\x21\x01\x02\x03\x04\x05\x06\x07\x08\xff\xff\xff\xffsiz2"), ("token7", b"\x04\0\0\x01\x02\x03\x04\x05")] {
            for n in 0..=40usize {
                for fill in [0x00u8, 0xff, 0x5a] {
                    let mut d = hdr.to_vec();
                    d.extend(std::iter::repeat(fill).take(n));
                    inputs.push((name.into(), d));
                }
            }
            for cut in 0..hdr.len() {
                inputs.push((format!("{}:truncated", name), hdr[..cut].to_vec()));
            }
        }
        // all first bytes with a few tails
        for b0 in 0..=255u8 {
            for tail in [&b""[..], b"\xff\xff\xff\xff\xff\xff\xff\xff\xff\xffinf3", b"\0\0\xff\xff\xff\xff\x05abcd", b"\x01\x02\x03\x04\x05\x06\x07\x08\xff\xff\xff\xffsiz2\x00\x01"] {
                let mut d = vec![b0];
                d.extend_from_slice(tail);
                inputs.push(("first-byte".into(), d));
            }
        }
    }
    let lc = inputs
        .par_iter()
        .fold(LocalClasses::new, |mut lc, (fam, d)| {
            lc.eval();
            match vp_core::catch(|| parse_all(d)) {
                Ok(c) => lc.class(&format!("parse:{}:{}", fam.split(':').next().unwrap_or(""), c), || json!({"family": fam, "datagram": vp_core::hex_short(d)})),
                Err(p) => {
                    run.violation(&format!("c18:parse:{}", vp_core::panic_sig(&p)), &format!("{}: {}", fam, p), json!({"family": fam, "datagram_hex": vp_core::hex(d)}));
                }
            }
            lc
        })
        .reduce(LocalClasses::new, |a, b| a.merge(b));
    run.merge_classes(lc);
}

/// Split `n` clients into parts; returns the datagrams.
fn parts_legacy64(n: usize) -> Vec<Vec<u8>> {
    // the 64-player legacy info: packets of 24 clients with an offset
    let mut out = Vec::new();
    let mut o = 0;
    loop {
        let k = (n - o).min(24);
        let mut f = info_fields("dtsf", "7", n, 64, Some(o), None);
        for i in o..o + k {
            f.extend(client_fields("dtsf", &client(i)));
        }
        out.push(datagram("dtsf", &f));
        o += k;
        if o >= n {
            break;
        }
    }
    out
}

fn parts_extended(n: usize, per_packet: usize) -> Vec<Vec<u8>> {
    let first = n.min(per_packet);
    let mut f = info_fields("iext", "7", n, 64.max(n), None, None);
    for i in 0..first {
        f.extend(client_fields("iext", &client(i)));
    }
    let mut out = vec![datagram("iext", &f)];
    let mut o = first;
    let mut pno = 1;
    while o < n {
        let k = (n - o).min(per_packet);
        let mut f = info_fields("iex+", "7", 0, 0, None, Some(&format!("{}", pno)));
        for i in o..o + k {
            f.extend(client_fields("iex+", &client(i)));
        }
        out.push(datagram("iex+", &f));
        o += k;
        pno += 1;
    }
    out
}

/// The complete info obtained by merging the parts in their natural order, as the reference for
/// "any order gives the same result" (None if that order does not complete - reported elsewhere).
fn natural_order_result(parts: &[Vec<u8>]) -> Option<String> {
    let mut acc: Option<PartialServerInfo> = None;
    for p in parts {
        let p = parse_partial(p)?;
        match acc.as_mut() {
            None => acc = Some(p),
            Some(a) => a.merge(p).ok()?,
        }
    }
    acc.as_mut()?.get_info().map(|i| format!("{:?}", i))
}

/// Parts that belong to another server's answer: the same formats with another token.
fn foreign_parts(n: usize) -> Vec<Vec<u8>> {
    let n = n.max(1);
    let mut f = info_fields("iext", "8", n, 64.max(n), None, None);
    for i in 0..n.min(16) {
        f.extend(client_fields("iext", &client(i)));
    }
    let mut g = info_fields("iex+", "8", 0, 0, None, Some("1"));
    g.extend(client_fields("iex+", &client(0)));
    let mut h = info_fields("dtsf", "8", n, 64, Some(0), None);
    for i in 0..n.min(24) {
        h.extend(client_fields("dtsf", &client(i)));
    }
    vec![datagram("iext", &f), datagram("iex+", &g), datagram("dtsf", &h)]
}

fn run_merge(parts: &[Vec<u8>], order: &[usize], n: usize) -> Result<String, String> {
    let reference = natural_order_result(parts);
    let mut acc: Option<PartialServerInfo> = None;
    let mut seen = std::collections::BTreeSet::new();
    let mut completions = 0;
    for (step, &pi) in order.iter().enumerate() {
        if pi >= parts.len() {
            // a part of another server's answer (another token, or the other multi-part format):
            // the merge must be refused and must leave what was collected so far untouched - the
            // expectations for the parts that follow stay exactly the same
            let foreign = foreign_parts(n);
            let f = parse_partial(&foreign[(pi - parts.len()) % foreign.len()]).ok_or("the foreign part does not parse")?;
            if let Some(a) = acc.as_mut() {
                if a.merge(f).is_ok() {
                    return Err(format!("a part of another server's answer was merged at step {}", step));
                }
                let complete_expected = seen.len() == parts.len();
                if a.get_info().is_some() != complete_expected {
                    return Err(format!("after a refused merge (step {}) the info is reported {} although {} of {} parts were merged", step, if complete_expected { "incomplete" } else { "complete" }, seen.len(), parts.len()));
                }
            }
            continue;
        }
        let p = parse_partial(&parts[pi]).ok_or_else(|| format!("part {} does not parse", pi))?;
        match acc.as_mut() {
            None => acc = Some(p),
            Some(a) => {
                if let Err(e) = a.merge(p) {
                    return Err(format!("merging part {} at step {} fails: {:?}", pi, step, e));
                }
            }
        }
        seen.insert(pi);
        let complete_expected = seen.len() == parts.len();
        let a = acc.as_mut().unwrap();
        match a.get_info() {
            Some(info) => {
                if !complete_expected {
                    return Err(format!("info reported complete after parts {:?} of {} (step {})", seen, parts.len(), step));
                }
                let mut names: Vec<(String, i32)> = info.clients.iter().map(|c| (c.name.to_string(), c.score)).collect();
                names.sort();
                let mut want: Vec<(String, i32)> = (0..n).map(|i| (client(i).name, client(i).score)).collect();
                want.sort();
                if names != want {
                    return Err(format!("complete info lists {} clients {:?}..., expected {} distinct clients", names.len(), &names[..names.len().min(5)], n));
                }
                // the same result whatever the order (all fields, the order of the list included)
                if let Some(r) = &reference {
                    if &format!("{:?}", info) != r {
                        return Err(format!("result depends on the order of the parts: order {:?} gives a different complete info than the natural order", order));
                    }
                }
                if info.num_clients as usize != n {
                    return Err(format!("complete info announces {} clients, expected {}", info.num_clients, n));
                }
                completions += 1;
            }
            None => {
                if complete_expected {
                    return Err(format!("all {} parts were merged (order {:?}) but the info is not complete", parts.len(), order));
                }
            }
        }
    }
    Ok(format!("merge:parts{}:completions{}", parts.len().min(5), (completions as usize).min(3)))
}

fn merging(run: &Arc<Run>, thorough: bool) {
    let ns = [0usize, 1, 2, 23, 24, 25, 47, 48, 49, 64];
    let mut jobs: Vec<(String, Vec<Vec<u8>>, usize)> = Vec::new();
    for &n in &ns {
        jobs.push((format!("legacy64:n{}", n), parts_legacy64(n), n));
        for per in [16usize, 24, 1000] {
            jobs.push((format!("extended:n{}:per{}", n, per), parts_extended(n, per), n));
        }
    }
    // exhaustive for <= 4 parts: all sequences of length <= parts+2
    for (name, parts, n) in &jobs {
        let k = parts.len();
        if k > 4 {
            continue;
        }
        let maxlen = k + 2;
        // (three more symbols: parts of another server's answer, which must be refused)
        let real_parts = k;
        let k = if k <= 3 { k + 3 } else { k };
        let total: usize = (1..=maxlen).map(|d| k.pow(d as u32)).sum();
        let lc = (0..total)
            .into_par_iter()
            .fold(LocalClasses::new, |mut lc, idx| {
                let mut i = idx;
                let mut d = 1;
                while i >= k.pow(d as u32) {
                    i -= k.pow(d as u32);
                    d += 1;
                }
                let mut order = Vec::new();
                for _ in 0..d {
                    order.push(i % k);
                    i /= k;
                }
                lc.eval();
                match vp_core::catch(|| run_merge(parts, &order, *n)) {
                    Ok(Ok(c)) => lc.class(&format!("{}:{}", name.split(':').next().unwrap_or(""), c), || json!({"server": name, "order": order})),
                    Ok(Err(msg)) => {
                        // (only parts of this server's answer count as repetitions)
                        let own: Vec<usize> = order.iter().cloned().filter(|&x| x < real_parts).collect();
                        let mut sorted = own.clone();
                        sorted.sort();
                        sorted.dedup();
                        let dup = if sorted.len() != own.len() { "with-repeated-part" } else { "no-repeated-part" };
                        run.violation(&format!("c18:merge:{}:{}:{}", name.split(':').next().unwrap_or(""), dup, msg.split(|c: char| c.is_ascii_digit() || c == '{' || c == '[').next().unwrap_or("").trim()), &format!("{}: {}", name, msg), json!({"server": name, "order_of_parts": order, "parts_hex": parts.iter().map(|p| vp_core::hex_short(p)).collect::<Vec<_>>()}));
                    }
                    Err(p) => {
                        run.violation(&format!("c18:merge:{}", vp_core::panic_sig(&p)), &format!("{}: {}", name, p), json!({"server": name, "order_of_parts": order}));
                    }
                }
                lc
            })
            .reduce(LocalClasses::new, |a, b| a.merge(b));
        run.merge_classes(lc);
    }
    // many parts: extended info with 1 client per packet (up to 64 parts): listed permutation families
    for n in [5usize, 8, 17, 33, 63, 64] {
        let parts = parts_extended(n, 1);
        let k = parts.len();
        let id: Vec<usize> = (0..k).collect();
        let mut orders: Vec<(Vec<usize>, String)> = vec![(id.clone(), "identity".into()), (id.iter().rev().cloned().collect(), "reverse".into())];
        for r in (1..k).step_by(if thorough { 1 } else { 3 }) {
            orders.push((id.iter().map(|x| (x + r) % k).collect(), "rotation".into()));
        }
        let mut eo: Vec<usize> = id.iter().filter(|x| *x % 2 == 0).cloned().collect();
        eo.extend(id.iter().filter(|x| *x % 2 == 1));
        orders.push((eo, "evens-then-odds".into()));
        let base = orders.clone();
        for (o, name) in base {
            for dup in (0..k).step_by(if thorough { 1 } else { 5 }) {
                let mut q = Vec::new();
                for &x in &o {
                    q.push(x);
                    if x == dup {
                        q.push(x);
                    }
                }
                orders.push((q, format!("{}+dup", name)));
            }
        }
        orders.par_iter().for_each(|(order, fam)| {
            run.add_evals(1);
            match vp_core::catch(|| run_merge(&parts, order, n)) {
                Ok(Ok(_)) => run.class(&format!("family:{}:parts{}", fam, if k > 32 { ">32" } else { "<=32" }), || json!({"clients": n, "order_head": &order[..order.len().min(8)]})),
                Ok(Err(msg)) => {
                    let dup = if fam.contains("+dup") { "with-repeated-part" } else { "no-repeated-part" };
                    run.violation(&format!("c18:merge:family:{}:{}", dup, msg.split(|c: char| c.is_ascii_digit() || c == '{' || c == '[').next().unwrap_or("").trim()), &format!("{} clients, 1 per packet, {}: {}", n, fam, msg), json!({"clients": n, "family": fam, "order_of_parts": order}));
                }
                Err(p) => {
                    run.violation(&format!("c18:merge:{}", vp_core::panic_sig(&p)), &format!("{} clients, 1 per packet, {}: {}", n, fam, p), json!({"clients": n, "family": fam, "order_of_parts": order}));
                }
            }
        });
    }
}

fn main() {
    let run = Run::new("C18", "exploration");
    let deep = run.tier == Tier::Thorough;
    parsing(&run, true, if deep { 64 } else { 4 });
    merging(&run, true);
    run.assume("parts come from a consistent server: the 64-player legacy info in packets of 24 clients with offsets, the extended info as one main packet plus non-empty 'more' packets numbered from 1 (doc/serverinfo_extended.md)");
    run.finish(
        "parsing: a well-formed datagram of each of the thirteen response kinds with every numeric field set to each of 25 boundary/garbage values and pairs of fields up to 3 apart (thorough: all pairs of fields), every truncation, every integer of the 0.7 info in ten non-canonical encodings, client counts around 16/24/64, offsets and packet numbers around 64, all first bytes; merging (parts of another server's answer - another token, either multi-part format - may come in between: refused, and what was collected stays untouched): servers with N in {0,1,2,23,24,25,47,48,49,64} clients split into legacy-64 and extended parts, for <= 4 parts all sequences of length <= parts+2 (every permutation with every duplication), for up to 64 parts listed permutation families with duplications; oracle: complete exactly when every part was seen, then every client exactly once",
        true,
    );
}
