//! C16: datafile and map readers are total; accepted files are fully
//! traversable. Files come from an independent v3/v4 writer (doc/datafile.md)
//! and are corrupted field by field.

use libtw2_datafile::raw;
use libtw2_datafile::raw::CallbackError;
use libtw2_datafile::raw::CallbackNew;
use libtw2_datafile::raw::CallbackReadData;
use std::fs::File;
use std::io::Write;
use std::os::unix::io::FromRawFd;
use std::sync::Arc;
use vp_core::rayon::prelude::*;
use vp_core::serde_json::json;
use vp_core::LocalClasses;
use vp_core::Run;
use vp_core::Tier;

// ---------------------------------------------------------------------------
// independent writer
// ---------------------------------------------------------------------------

#[derive(Clone, Debug)]
struct Df {
    version: i32,
    /// (type_id, items of that type: (id, words))
    types: Vec<(u16, Vec<(u16, Vec<i32>)>)>,
    data: Vec<Vec<u8>>,
}

/// The file as a list of 32-bit "meta" words followed by the data section, so
/// that every header / table / item word has an index.
#[derive(Clone)]
struct Built {
    meta: Vec<i32>,
    data: Vec<u8>,
    /// names of the meta words, for reports
    names: Vec<String>,
}

fn zcompress(d: &[u8]) -> Vec<u8> {
    let mut out = vec![0u8; d.len() + d.len() / 1000 + 64];
    let n = libtw2_zlib_minimal::compress(&mut out, d).expect("zlib compress");
    out.truncate(n);
    out
}

fn build(df: &Df) -> Built {
    let mut names = Vec::new();
    let num_items: usize = df.types.iter().map(|t| t.1.len()).sum();
    let mut item_words: Vec<i32> = Vec::new();
    let mut item_names: Vec<String> = Vec::new();
    let mut item_offsets = Vec::new();
    let mut type_table = Vec::new();
    let mut start = 0;
    for (t, items) in &df.types {
        type_table.extend_from_slice(&[*t as i32, start, items.len() as i32]);
        start += items.len() as i32;
        for (id, words) in items {
            item_offsets.push((item_words.len() * 4) as i32);
            item_words.push((((*t as u32) << 16) | *id as u32) as i32);
            item_names.push(format!("item({},{}).type_id__id", t, id));
            item_words.push((words.len() * 4) as i32);
            item_names.push(format!("item({},{}).size", t, id));
            for (k, w) in words.iter().enumerate() {
                item_words.push(*w);
                item_names.push(format!("item({},{}).data[{}]", t, id, k));
            }
        }
    }
    let mut data_section = Vec::new();
    let mut data_offsets = Vec::new();
    let mut data_sizes = Vec::new();
    for d in &df.data {
        data_offsets.push(data_section.len() as i32);
        data_sizes.push(d.len() as i32);
        if df.version == 4 {
            data_section.extend_from_slice(&zcompress(d));
        } else {
            data_section.extend_from_slice(d);
        }
    }
    let ndata = df.data.len();
    let meta_len_after_version = 7 + type_table.len() + num_items + ndata + if df.version == 4 { ndata } else { 0 } + item_words.len();
    // size: the complete file without version_header, size and swaplen
    let total = 8 + 4 * meta_len_after_version + data_section.len();
    let size = total - 16;
    let swaplen = size - data_section.len();
    let mut meta = vec![df.version, size as i32, swaplen as i32, df.types.len() as i32, num_items as i32, ndata as i32, (item_words.len() * 4) as i32, data_section.len() as i32];
    names.extend(["version", "size", "swaplen", "num_item_types", "num_items", "num_data", "item_size", "data_size"].iter().map(|s| s.to_string()));
    for (i, w) in type_table.iter().enumerate() {
        meta.push(*w);
        names.push(format!("item_type[{}].{}", i / 3, ["type_id", "start", "num"][i % 3]));
    }
    for (i, w) in item_offsets.iter().enumerate() {
        meta.push(*w);
        names.push(format!("item_offset[{}]", i));
    }
    for (i, w) in data_offsets.iter().enumerate() {
        meta.push(*w);
        names.push(format!("data_offset[{}]", i));
    }
    if df.version == 4 {
        for (i, w) in data_sizes.iter().enumerate() {
            meta.push(*w);
            names.push(format!("data_size[{}]", i));
        }
    }
    meta.extend_from_slice(&item_words);
    names.extend(item_names);
    Built { meta, data: data_section, names }
}

/// The same file with the byte sizes of some items changed by a delta
/// (offsets and header totals kept consistent), so that item sizes and
/// offsets need not be multiples of four.
fn build_resized(df: &Df, deltas: &[(usize, i32)]) -> Option<Vec<u8>> {
    let mut items_bytes: Vec<u8> = Vec::new();
    let mut offsets = Vec::new();
    let mut type_table = Vec::new();
    let mut start = 0;
    let mut k = 0usize;
    for (t, items) in &df.types {
        type_table.extend_from_slice(&[*t as i32, start, items.len() as i32]);
        start += items.len() as i32;
        for (id, words) in items {
            let delta = deltas.iter().find(|d| d.0 == k).map(|d| d.1).unwrap_or(0);
            let size = (words.len() * 4) as i32 + delta;
            if size < 0 {
                return None;
            }
            offsets.push(items_bytes.len() as i32);
            items_bytes.extend_from_slice(&((((*t as u32) << 16) | *id as u32) as i32).to_le_bytes());
            items_bytes.extend_from_slice(&size.to_le_bytes());
            let mut body: Vec<u8> = words.iter().flat_map(|w| w.to_le_bytes()).collect();
            body.resize(size as usize, 0xee);
            items_bytes.extend_from_slice(&body);
            k += 1;
        }
    }
    let mut data_section = Vec::new();
    let mut data_offsets = Vec::new();
    let mut data_sizes = Vec::new();
    for d in &df.data {
        data_offsets.push(data_section.len() as i32);
        data_sizes.push(d.len() as i32);
        if df.version == 4 {
            data_section.extend_from_slice(&zcompress(d));
        } else {
            data_section.extend_from_slice(d);
        }
    }
    let ndata = df.data.len();
    let tables = type_table.len() + offsets.len() + ndata + if df.version == 4 { ndata } else { 0 };
    let total = 8 + 4 * (7 + tables) + items_bytes.len() + data_section.len();
    let size = total - 16;
    let swaplen = size - data_section.len();
    let mut words = vec![df.version, size as i32, swaplen as i32, df.types.len() as i32, offsets.len() as i32, ndata as i32, items_bytes.len() as i32, data_section.len() as i32];
    words.extend(type_table);
    words.extend(offsets);
    words.extend(data_offsets);
    if df.version == 4 {
        words.extend(data_sizes);
    }
    let mut out = b"DATA".to_vec();
    for w in words {
        out.extend_from_slice(&w.to_le_bytes());
    }
    out.extend_from_slice(&items_bytes);
    out.extend_from_slice(&data_section);
    Some(out)
}

/// A file whose tables are consistent with each other but announce one thing more than is
/// stored: a phantom item (counted in the last type, in a type of its own, or in no type) whose
/// offset lies `delta` bytes from the end of the item section, or a phantom data block whose
/// offset lies `delta` bytes from the end of the data section. Header totals are adjusted.
fn build_phantom(df: &Df, kind: u8, delta: i32) -> Option<Vec<u8>> {
    let mut b = build(df);
    let mut nt = df.types.len();
    let ni: usize = df.types.iter().map(|t| t.1.len()).sum();
    let nd = df.data.len();
    let (item_size, data_size) = (b.meta[6], b.meta[7]);
    let mut added = 0;
    let mut ins = |b: &mut Built, pos: usize, v: i32, name: &str| {
        b.meta.insert(pos, v);
        b.names.insert(pos, name.to_string());
    };
    match kind {
        0 | 1 | 2 => {
            if kind == 0 {
                if nt == 0 {
                    return None;
                }
                b.meta[8 + 3 * (nt - 1) + 2] += 1;
            }
            if kind == 1 {
                let p = 8 + 3 * nt;
                ins(&mut b, p, 0x7777, "phantom_type.type_id");
                ins(&mut b, p + 1, ni as i32, "phantom_type.start");
                ins(&mut b, p + 2, 1, "phantom_type.num");
                b.meta[3] += 1;
                nt += 1;
                added += 3;
            }
            ins(&mut b, 8 + 3 * nt + ni, item_size + delta, "phantom_item_offset");
            b.meta[4] += 1;
            added += 1;
        }
        _ => {
            ins(&mut b, 8 + 3 * nt + ni + nd, data_size + delta, "phantom_data_offset");
            added += 1;
            if df.version == 4 {
                ins(&mut b, 8 + 3 * nt + ni + nd + 1 + nd, 4, "phantom_data_size");
                added += 1;
            }
            b.meta[5] += 1;
        }
    }
    b.meta[1] += 4 * added;
    b.meta[2] += 4 * added;
    Some(bytes_of(&b))
}

const PHANTOM_KINDS: [&str; 4] = ["item in the last type", "item in a type of its own", "item in no type", "data block"];

fn bytes_of(b: &Built) -> Vec<u8> {
    let mut out = b"DATA".to_vec();
    for w in &b.meta {
        out.extend_from_slice(&w.to_le_bytes());
    }
    out.extend_from_slice(&b.data);
    out
}

// ---------------------------------------------------------------------------
// in-memory callbacks for the raw reader
// ---------------------------------------------------------------------------

/// Unusual answers of the environment: at call number `.0` of the respective callback only `.1`
/// bytes are returned although more were asked for and are there (a source that hands the file
/// out in pieces), or the call fails.
#[derive(Clone, Copy, Debug, Default)]
struct Env {
    new_short: Option<(usize, usize)>,
    new_fail: Option<usize>,
    data_short: Option<(usize, usize)>,
    data_fail: Option<usize>,
}

impl Env {
    fn any_new(&self) -> bool {
        self.new_short.is_some() || self.new_fail.is_some()
    }
    fn any_data(&self) -> bool {
        self.data_short.is_some() || self.data_fail.is_some()
    }
}

struct MemNew<'a> {
    bytes: &'a [u8],
    pos: usize,
    seek_base: usize,
    calls: usize,
    env: Env,
}

impl<'a> CallbackNew for MemNew<'a> {
    fn read(&mut self, buffer: &mut [u8]) -> Result<usize, CallbackError> {
        let call = self.calls;
        self.calls += 1;
        if self.env.new_fail == Some(call) {
            return Err(CallbackError);
        }
        let mut n = buffer.len().min(self.bytes.len() - self.pos);
        if let Some((k, m)) = self.env.new_short {
            if k == call {
                n = n.min(m);
            }
        }
        buffer[..n].copy_from_slice(&self.bytes[self.pos..self.pos + n]);
        self.pos += n;
        Ok(n)
    }
    fn set_seek_base(&mut self) -> Result<(), CallbackError> {
        self.seek_base = self.pos;
        Ok(())
    }
    fn ensure_filesize(&mut self, filesize: u32) -> Result<Result<(), ()>, CallbackError> {
        Ok(if self.bytes.len() as u64 >= filesize as u64 { Ok(()) } else { Err(()) })
    }
}

struct MemData<'a> {
    bytes: &'a [u8],
    seek_base: usize,
    buffer: Vec<u8>,
    calls: usize,
    env: Env,
}

impl<'a> CallbackReadData for MemData<'a> {
    fn seek_read(&mut self, start: u32, buffer: &mut [u8]) -> Result<usize, CallbackError> {
        let call = self.calls;
        self.calls += 1;
        if self.env.data_fail == Some(call) {
            return Err(CallbackError);
        }
        let off = self.seek_base + start as usize;
        if off > self.bytes.len() {
            return Ok(0);
        }
        let mut n = buffer.len().min(self.bytes.len() - off);
        if let Some((k, m)) = self.env.data_short {
            if k == call {
                n = n.min(m);
            }
        }
        buffer[..n].copy_from_slice(&self.bytes[off..off + n]);
        Ok(n)
    }
    fn alloc_data_buffer(&mut self, length: usize) -> Result<(), CallbackError> {
        if length > 1 << 26 {
            // the harness refuses absurd allocations (an I/O-level failure, not a verdict)
            return Err(CallbackError);
        }
        self.buffer = vec![0; length];
        Ok(())
    }
    fn data_buffer(&mut self) -> &mut [u8] {
        &mut self.buffer
    }
}

/// Open with the raw reader and traverse everything. Returns the outcome class.
fn traverse_raw(bytes: &[u8], expect: Option<&Df>) -> Result<String, String> {
    traverse_raw_env(bytes, expect, Env::default())
}

/// With an unusual environment: opening may fail (then nothing more is asked); a reader that was
/// handed out must return exactly what was stored; a data block whose read was disturbed may be
/// refused, every other block is still returned exactly.
fn traverse_raw_env(bytes: &[u8], expect: Option<&Df>, env: Env) -> Result<String, String> {
    let mut cb = MemNew { bytes, pos: 0, seek_base: 0, calls: 0, env };
    let r = match raw::Reader::new(&mut cb) {
        Ok(r) => r,
        Err(e) => {
            if expect.is_some() && !env.any_new() {
                return Err(format!("well-formed file rejected: {:?}", e));
            }
            return Ok(format!("rejected:{:?}", e).chars().take(40).collect());
        }
    };
    let mut dcb = MemData { bytes, seek_base: cb.seek_base, buffer: Vec::new(), calls: 0, env };
    let n = r.num_items();
    let items: Vec<_> = r.items().collect();
    if items.len() != n {
        return Err("items() does not yield num_items items".into());
    }
    let mut types: Vec<u16> = r.item_types().collect();
    if types.len() != r.num_item_types() {
        return Err("item_types() count differs".into());
    }
    let mut total = 0;
    for &t in &types {
        let range = r.item_type_indices(t);
        for it in r.item_type_items(t) {
            if it.type_id != t {
                return Err(format!("item_type_items({}) yields an item of type {}", t, it.type_id));
            }
            total += 1;
        }
        if range.end > n {
            return Err("item_type_indices out of range".into());
        }
    }
    if total != n {
        return Err(format!("item types cover {} of {} items", total, n));
    }
    for it in &items {
        match r.find_item(it.type_id, it.id) {
            Some(f) if f.type_id == it.type_id && f.id == it.id => {}
            other => return Err(format!("find_item({},{}) = {:?}", it.type_id, it.id, other.map(|x| (x.type_id, x.id)))),
        }
    }
    types.extend_from_slice(&[0, 1, 0x7fff, 0xffff]);
    for &t in &types {
        let _ = r.find_item(t, 0xffff);
        let _ = r.item_type_indices(t);
    }
    let mut datas = Vec::new();
    for i in 0..r.num_data() {
        if dcb.calls > 0 && env.any_data() && (env.data_fail.map(|k| k < dcb.calls).unwrap_or(false) || env.data_short.map(|k| k.0 < dcb.calls).unwrap_or(false)) {
            // the one disturbance has happened
            dcb.env = Env::default();
        }
        match r.read_data(&mut dcb, i) {
            Ok(()) => datas.push(Some(dcb.buffer.clone())),
            Err(_) => datas.push(None),
        }
    }
    if let Some(df) = expect {
        let want_items: Vec<(u16, u16, Vec<i32>)> = df.types.iter().flat_map(|(t, is)| is.iter().map(move |(id, w)| (*t, *id, w.clone()))).collect();
        let got_items: Vec<(u16, u16, Vec<i32>)> = items.iter().map(|i| (i.type_id, i.id, i.data.to_vec())).collect();
        if want_items != got_items {
            return Err(format!("items differ: got {:?}, stored {:?}", got_items, want_items));
        }
        let want_data: Vec<Option<Vec<u8>>> = df.data.iter().map(|d| Some(d.clone())).collect();
        if !env.any_data() {
            if want_data != datas {
                return Err("data blocks differ from what was stored".into());
            }
        } else {
            // at most the one block whose read was disturbed may be refused; nothing may be wrong
            if want_data.len() != datas.len() || datas.iter().filter(|d| d.is_none()).count() > 1 || want_data.iter().zip(&datas).any(|(w, g)| g.is_some() && g != w) {
                return Err("after one disturbed read of a data block, the blocks returned differ from what was stored".into());
            }
            // ... and every block is returned exactly when asked for again (undisturbed now)
            dcb.env = Env::default();
            for i in 0..r.num_data() {
                match r.read_data(&mut dcb, i) {
                    Ok(()) if Some(&dcb.buffer) == want_data[i].as_ref() => {}
                    other => return Err(format!("data block {} read again after a disturbed read: {:?}", i, other.map(|()| dcb.buffer.len()))),
                }
            }
        }
        let want_types: Vec<u16> = df.types.iter().map(|t| t.0).collect();
        if want_types != types[..want_types.len()] {
            return Err("item types differ".into());
        }
    }
    Ok(format!("accepted:{:?}:items{}:data{}:unreadable{}", r.version(), n.min(3), datas.len().min(3), datas.iter().filter(|d| d.is_none()).count().min(2)))
}

// ---------------------------------------------------------------------------
// file-based readers through a memfd
// ---------------------------------------------------------------------------

fn memfd(bytes: &[u8]) -> File {
    let fd = unsafe { libc::memfd_create(b"vp-c16\0".as_ptr() as *const libc::c_char, 0) };
    assert!(fd >= 0, "memfd_create failed");
    let mut f = unsafe { File::from_raw_fd(fd) };
    f.write_all(bytes).unwrap();
    use std::io::Seek;
    f.seek(std::io::SeekFrom::Start(0)).unwrap();
    f
}

fn traverse_file(bytes: &[u8], expect: Option<&Df>) -> Result<String, String> {
    let mut r = match libtw2_datafile::Reader::new(memfd(bytes)) {
        Ok(r) => r,
        Err(e) => {
            if expect.is_some() {
                return Err(format!("well-formed file rejected by the file reader: {:?}", e));
            }
            return Ok("file:rejected".into());
        }
    };
    let items: Vec<(u16, u16, Vec<i32>)> = r.items().map(|i| (i.type_id, i.id, i.data.to_vec())).collect();
    let types: Vec<u16> = r.item_types().collect();
    for &t in &types {
        let _ = r.item_type_items(t).count();
    }
    let datas: Vec<Option<Vec<u8>>> = r.data_iter().map(|d| d.ok()).collect();
    if let Some(df) = expect {
        let want_items: Vec<(u16, u16, Vec<i32>)> = df.types.iter().flat_map(|(t, is)| is.iter().map(move |(id, w)| (*t, *id, w.clone()))).collect();
        if want_items != items {
            return Err("file reader: items differ".into());
        }
        let want_data: Vec<Option<Vec<u8>>> = df.data.iter().map(|d| Some(d.clone())).collect();
        if want_data != datas {
            return Err("file reader: data blocks differ".into());
        }
    }
    Ok(format!("file:accepted:items{}:data{}", items.len().min(3), datas.len().min(3)))
}

/// All map accessors on a file.
fn traverse_map(bytes: &[u8]) -> Result<String, String> {
    let df = match libtw2_datafile::Reader::new(memfd(bytes)) {
        Ok(r) => r,
        Err(_) => return Ok("map:datafile-rejected".into()),
    };
    let mut m = libtw2_map::Reader::from_datafile(df);
    let mut ok = 0;
    let mut err = 0;
    macro_rules! tally {
        ($e:expr) => {
            match $e {
                Ok(v) => {
                    ok += 1;
                    Some(v)
                }
                Err(_) => {
                    err += 1;
                    None
                }
            }
        };
    }
    tally!(m.check_version());
    tally!(m.version());
    let ndata = m.reader.num_data();
    if let Some(info) = tally!(m.info()) {
        for idx in [info.author, info.version, info.credits, info.license].iter().flatten() {
            if *idx >= ndata {
                return Err(format!("info string index {} out of {} data blocks", idx, ndata));
            }
            tally!(m.string(*idx));
        }
        if let Some(s) = info.settings {
            if s >= ndata {
                return Err("settings index out of range".into());
            }
            if let Some(set) = tally!(m.settings(s)) {
                let _ = set.iter().count();
            }
        }
    }
    let images = m.reader.item_type_indices(libtw2_map::format::MAP_ITEMTYPE_IMAGE);
    for i in images {
        if let Some(img) = tally!(m.image(i)) {
            if img.name >= ndata || img.data.map(|d| d >= ndata).unwrap_or(false) {
                return Err("image data index out of range".into());
            }
            tally!(m.image_name(img.name));
            if let Some(d) = img.data {
                tally!(m.image_data(d));
            }
        }
    }
    let nitems = m.reader.num_items();
    let image_range = m.reader.item_type_indices(libtw2_map::format::MAP_ITEMTYPE_IMAGE);
    let env_range = m.reader.item_type_indices(libtw2_map::format::MAP_ITEMTYPE_ENVELOPE);
    let sound_range = m.reader.item_type_indices(libtw2_map::format::MAP_ITEMTYPE_DDRACE_SOUND);
    // a reference handed out by a layer must point into the item type it refers to, and
    // following it must work like following any index of that type
    macro_rules! follow {
        ($what:expr, $idx:expr, $range:expr) => {
            if let Some(i) = $idx {
                if !$range.contains(&i) {
                    return Err(format!("layer refers to {} {} but the {} items are {:?}", $what, i, $what, $range));
                }
                let it = m.reader.item(i);
                let _ = (it.type_id, it.id, it.data.len());
            }
        };
    }
    for g in m.group_indices() {
        if let Some(group) = tally!(m.group(g)) {
            if group.layer_indices.end > nitems {
                return Err("group layer indices out of range".into());
            }
            for l in group.layer_indices.clone() {
                if let Some(layer) = tally!(m.layer(l)) {
                    match layer.t {
                        libtw2_map::reader::LayerType::Tilemap(t) => {
                            if let Some(n) = t.type_.to_normal() {
                                follow!("image", n.image, image_range);
                                follow!("envelope", n.color_env_and_offset.map(|x| x.0), env_range);
                                if let Some(i) = n.image {
                                    tally!(m.image(i));
                                }
                            }
                            if let Some(d) = t.type_.tiles() {
                                if d >= ndata {
                                    return Err("tile data index out of range".into());
                                }
                                tally!(m.layer_tiles_raw(d));
                                tally!(m.layer_tiles(t.tiles(d)));
                                tally!(m.tele_layer_tiles_raw(d));
                                tally!(m.speedup_layer_tiles_raw(d));
                                tally!(m.switch_layer_tiles_raw(d));
                                tally!(m.tune_layer_tiles_raw(d));
                            }
                        }
                        libtw2_map::reader::LayerType::Quads(q) => {
                            follow!("image", q.image, image_range);
                            if let Some(i) = q.image {
                                tally!(m.image(i));
                            }
                            if q.data >= ndata {
                                return Err("quads data index out of range".into());
                            }
                        }
                        libtw2_map::reader::LayerType::DdraceSounds(s) => {
                            follow!("sound", s.sound, sound_range);
                            if s.data >= ndata {
                                return Err("sound sources data index out of range".into());
                            }
                        }
                    }
                }
            }
        }
    }
    if let Some(gl) = tally!(m.game_layers()) {
        tally!(m.layer_tiles(gl.game()));
        if let Some(t) = gl.teleport() {
            tally!(m.tele_layer_tiles(t));
        }
        if let Some(t) = gl.speedup() {
            tally!(m.speedup_layer_tiles(t));
        }
        if let Some(t) = gl.front() {
            tally!(m.layer_tiles(t));
        }
        if let Some(t) = gl.switch() {
            tally!(m.switch_layer_tiles(t));
        }
        if let Some(t) = gl.tune() {
            tally!(m.tune_layer_tiles(t));
        }
    }
    for d in 0..ndata {
        let _ = m.string(d);
        let _ = m.settings(d).map(|s| s.iter().count());
        let _ = m.image_name(d);
    }
    Ok(format!("map:ok{}:err{}", (ok as usize).min(12), (err as usize).min(6)))
}

// ---------------------------------------------------------------------------
// families
// ---------------------------------------------------------------------------

fn wellformed_family(thorough: bool) -> Vec<Df> {
    let type_ids: [u16; 4] = [0, 1, 5, 0xffff];
    let word_sets: [Vec<i32>; 4] = [vec![], vec![7], vec![-1, 0, i32::MAX], vec![1, 2]];
    let data_sets: Vec<Vec<Vec<u8>>> = vec![
        vec![],
        vec![vec![]],
        vec![vec![42]],
        vec![b"hello".to_vec(), vec![]],
        vec![vec![0; 1000], b"hello".to_vec(), vec![1]],
        vec![(0..1000).map(|i| (i * 7) as u8).collect()],
    ];
    let mut out = Vec::new();
    // number of items per type: each of up to 3 types has 0..=2 items
    let max_types = if thorough { 3 } else { 3 };
    for ntypes in 0..=max_types {
        for counts in 0..3usize.pow(ntypes as u32) {
            let mut types = Vec::new();
            let mut c = counts;
            let mut serial = 0usize;
            for t in 0..ntypes {
                let n = c % 3;
                c /= 3;
                let items: Vec<(u16, Vec<i32>)> = (0..n)
                    .map(|k| {
                        serial += 1;
                        (if k == 0 { 0 } else { 0xffff }, word_sets[(serial + t) % 4].clone())
                    })
                    .collect();
                types.push((type_ids[if ntypes == 3 && t == 2 { 3 } else { t }], items));
            }
            for (di, data) in data_sets.iter().enumerate() {
                if !thorough && (counts + di) % 2 == 1 && ntypes == 3 {
                    continue;
                }
                for version in [3, 4] {
                    out.push(Df { version, types: types.clone(), data: data.clone() });
                }
            }
        }
    }
    out
}

fn boundary(v: i32, past_end: i32) -> Vec<i32> {
    let mut b = vec![0, 1, -1, 2, 3, 4, 5, 8, 12, i32::MIN, i32::MAX, v.wrapping_add(1), v.wrapping_sub(1), v.wrapping_add(4), v.wrapping_sub(4), past_end, past_end.wrapping_add(1), 0x10000, 0xffff, -4];
    b.sort();
    b.dedup();
    b.retain(|x| *x != v);
    b
}

/// A valid map: version, info with strings and settings, one embedded and one
/// external image, one envelope, two groups, tile layers (game + tele + normal), quads.
fn base_maps() -> Vec<Df> {
    let tiles = |w: usize, h: usize| -> Vec<u8> { (0..w * h * 4).map(|i| (i % 7) as u8).collect() };
    let tele = |w: usize, h: usize| -> Vec<u8> { (0..w * h * 2).map(|i| (i % 3) as u8).collect() };
    let name3 = |s: &str| -> [i32; 3] {
        let mut b = [0x80u8; 12];
        for (i, c) in s.bytes().enumerate().take(11) {
            b[i] = c.wrapping_add(128);
        }
        b[11] = 0x80;
        [
            i32::from_be_bytes([b[0], b[1], b[2], b[3]]),
            i32::from_be_bytes([b[4], b[5], b[6], b[7]]),
            i32::from_be_bytes([b[8], b[9], b[10], b[11]]),
        ]
    };
    let n = name3("Game");
    let mut maps = Vec::new();
    for version in [3, 4] {
        // data blocks: 0 author, 1 settings, 2 image name, 3 image data, 4 game tiles, 5 tele tiles, 6 normal tiles, 7 quads,
        // 8 sound name, 9 sound data, 10 sound sources
        let data = vec![
            b"author\0".to_vec(),
            b"sv_gametype dm\0tune x 1\0".to_vec(),
            b"grass_main\0".to_vec(),
            vec![0xaa; 2 * 2 * 4],
            tiles(3, 2),
            tele(3, 2),
            tiles(3, 2),
            vec![0u8; 152],
            b"wind\0".to_vec(),
            vec![0x55; 4],
            vec![0u8; 52],
        ];
        let layer = |ty: i32, rest: Vec<i32>| -> Vec<i32> {
            let mut v = vec![0, ty, 0];
            v.extend(rest);
            v
        };
        let tilemap = |flags: i32, image: i32, data: i32, extra: Vec<i32>| -> Vec<i32> {
            let mut v = vec![3, 3, 2, flags, 255, 255, 255, 255, -1, 0, image, data, n[0], n[1], n[2]];
            v.extend(extra);
            v
        };
        let types = vec![
            (0u16, vec![(0u16, vec![1])]),
            (1, vec![(0, vec![1, 0, -1, -1, -1, 1])]),
            (2, vec![(0, vec![2, 2, 2, 0, 2, 3, 1]), (1, vec![1, 0, 0, 1, 2, -1])]),
            (3, vec![(0, vec![2, 4, 0, 1, 0, 0, 0, 0, 0, 0, 0, 0, 1])]),
            (4, vec![(0, vec![3, 0, 0, 100, 100, 0, 3, 0, 0, 0, 0, 0, n[0], n[1], n[2]]), (1, vec![1, 5, 5, 0, 0, 3, 2])]),
            (
                5,
                vec![
                    (0, layer(2, tilemap(1, -1, 4, vec![]))),
                    (1, layer(2, tilemap(2, -1, 6, vec![5, -1, -1, -1, -1]))),
                    (2, layer(2, tilemap(0, 0, 6, vec![]))),
                    (3, layer(3, vec![2, 1, 7, 0, n[0], n[1], n[2]])),
                    (4, layer(10, vec![2, 1, 10, 0, n[0], n[1], n[2]])),
                ],
            ),
            (6, vec![(0, vec![0, 1, 0, 0, 0, 0])]),
            (7, vec![(0, vec![1, 0, 8, 9, 4])]),
        ];
        maps.push(Df { version, types, data });
    }
    maps
}

fn main() {
    let run = Run::new("C16", "exploration");
    let deep = run.tier == Tier::Thorough;
    let thorough = true;
    // --- A. datafile level
    let family = wellformed_family(thorough);
    run.set("wellformed_files", json!(family.len()));
    let lc = family
        .par_iter()
        .enumerate()
        .fold(LocalClasses::new, |mut lc, (dfi, df)| {
            let built = build(df);
            let bytes = bytes_of(&built);
            let report = |lc: &mut LocalClasses, what: String, r: Result<Result<String, String>, String>, case: &dyn Fn() -> vp_core::serde_json::Value| {
                lc.eval();
                match r {
                    Ok(Ok(c)) => lc.class(&format!("{}:{}", what.split(':').next().unwrap_or(""), c), case),
                    Ok(Err(d)) => {
                        run.violation(&format!("c16:{}:{}", what.split(':').next().unwrap_or(""), d.split(|c: char| c.is_ascii_digit() || c == '(').next().unwrap_or("").trim()), &format!("{}: {}", what, d), case());
                    }
                    Err(p) => {
                        run.violation(&format!("c16:{}:{}", what.split(':').next().unwrap_or(""), vp_core::panic_sig(&p)), &format!("{}: {}", what, p), case());
                    }
                }
            };
            // well-formed: exactly what was stored, through both readers
            report(&mut lc, "wellformed".into(), vp_core::catch(|| traverse_raw(&bytes, Some(df))), &|| json!({"df": format!("{:?}", df)}));
            report(&mut lc, "wellformed-file".into(), vp_core::catch(|| traverse_file(&bytes, Some(df))), &|| json!({"df": format!("{:?}", df)}));
            // the same file from an environment that answers unusually once: a read that returns
            // fewer bytes than asked for, or fails
            if dfi % 4 == 0 {
                let mut envs: Vec<Env> = Vec::new();
                for call in 0..8 {
                    envs.push(Env { new_fail: Some(call), ..Env::default() });
                    envs.push(Env { data_fail: Some(call), ..Env::default() });
                    for m in [0usize, 1, 3, 4, 7, 8, 12, 16, 35, 36, 37, 64] {
                        envs.push(Env { new_short: Some((call, m)), ..Env::default() });
                        envs.push(Env { data_short: Some((call, m)), ..Env::default() });
                    }
                }
                // (every length a post-header read could be cut to)
                for m in (0..bytes.len()).step_by(1) {
                    for call in 1..4 {
                        envs.push(Env { new_short: Some((call, m)), ..Env::default() });
                    }
                }
                for env in envs {
                    report(&mut lc, "unusual-environment".into(), vp_core::catch(|| traverse_raw_env(&bytes, Some(df), env)), &|| json!({"df": format!("{:?}", df), "environment": format!("{:?}", env)}));
                }
            }
            // every meta word x boundary values
            let past = (built.meta.len() * 4 + built.data.len()) as i32;
            for i in 0..built.meta.len() {
                for x in boundary(built.meta[i], past) {
                    let mut m = built.clone();
                    m.meta[i] = x;
                    let b = bytes_of(&m);
                    report(&mut lc, format!("field:{}", built.names[i]), vp_core::catch(|| traverse_raw(&b, None)), &|| json!({"df": format!("{:?}", df), "word": built.names[i], "set_to": x, "file_hex": vp_core::hex(&b)}));
                }
            }
            // truncation at every byte
            for cut in 0..bytes.len() {
                report(&mut lc, "truncation".into(), vp_core::catch(|| traverse_raw(&bytes[..cut], None)), &|| json!({"df": format!("{:?}", df), "truncated_to": cut}));
            }
            // data section: every byte flipped (small blocks), magic bytes
            if built.data.len() <= 64 {
                let off = 4 + built.meta.len() * 4;
                for i in 0..built.data.len() {
                    for x in [0xffu8, 0x01, 0x80] {
                        let mut b = bytes.clone();
                        b[off + i] ^= x;
                        report(&mut lc, "data-byte-flip".into(), vp_core::catch(|| traverse_raw(&b, None)), &|| json!({"df": format!("{:?}", df), "data_byte": i, "xor": x}));
                    }
                }
            }
            // item sizes that are not multiples of four, offsets kept consistent
            let nitems: usize = df.types.iter().map(|t| t.1.len()).sum();
            for a in 0..nitems {
                for da in [-4, -1, 1, 2, 3, 4] {
                    if let Some(b) = build_resized(df, &[(a, da)]) {
                        report(&mut lc, "item-resized".into(), vp_core::catch(|| traverse_raw(&b, None)), &|| json!({"df": format!("{:?}", df), "item": a, "size_delta": da, "file_hex": vp_core::hex(&b)}));
                    }
                    for c in (a + 1)..nitems {
                        for dc in [-3, -1, 1, 3, 4 - da] {
                            if let Some(b) = build_resized(df, &[(a, da), (c, dc)]) {
                                report(&mut lc, "item-resized".into(), vp_core::catch(|| traverse_raw(&b, None)), &|| json!({"df": format!("{:?}", df), "items": [a, c], "size_deltas": [da, dc], "file_hex": vp_core::hex(&b)}));
                            }
                        }
                    }
                }
            }
            // tables consistent with each other that announce one item / data block too many
            for kind in 0..4u8 {
                for delta in [-12, -8, -5, -4, -3, -1, 0, 1, 4, 8] {
                    if let Some(b) = build_phantom(df, kind, delta) {
                        report(&mut lc, "phantom".into(), vp_core::catch(|| traverse_raw(&b, None)), &|| json!({"df": format!("{:?}", df), "phantom": PHANTOM_KINDS[kind as usize], "offset_from_section_end": delta, "file_hex": vp_core::hex(&b)}));
                    }
                }
            }
            for magic in [&b"ATAD"[..], b"DATB", b"\0\0\0\0"] {
                let mut b = bytes.clone();
                b[..4].copy_from_slice(magic);
                report(&mut lc, "magic".into(), vp_core::catch(|| traverse_raw(&b, None)), &|| json!({"magic": vp_core::hex(magic)}));
            }
            lc
        })
        .reduce(LocalClasses::new, |a, b| a.merge(b));
    run.merge_classes(lc);
    // well-formed files whose index part (header, tables, items) lies around and beyond the 8 KiB
    // the file reader buffers at a time: every item count 470..=560 (16 bytes of index each) and a few
    // large ones, returned exactly through the in-memory callbacks and through the real file path
    {
        let mut counts: Vec<usize> = (470..=560).collect();
        counts.extend([1000usize, 1023, 1024, 1025, 2100, 5000]);
        let cases: Vec<(usize, i32)> = counts.iter().flat_map(|&n| [(n, 3), (n, 4)]).collect();
        let lc = cases
            .par_iter()
            .fold(LocalClasses::new, |mut lc, &(n, version)| {
                let items: Vec<(u16, Vec<i32>)> = (0..n).map(|i| (i as u16, vec![i as i32 * 7 - 3])).collect();
                let half = n / 2;
                let df = Df {
                    version,
                    types: vec![(3, items[..half].to_vec()), (0x7fff, items[half..].to_vec())],
                    data: vec![b"first".to_vec(), vec![0x5a; 3000], vec![]],
                };
                let bytes = bytes_of(&build(&df));
                for (what, r) in [("large-index", vp_core::catch(|| traverse_raw(&bytes, Some(&df)))), ("large-index-file", vp_core::catch(|| traverse_file(&bytes, Some(&df))))] {
                    lc.eval();
                    match r {
                        Ok(Ok(_)) => lc.class(&format!("{}:v{}:{}", what, version, if n < 520 { "below-8KiB" } else if n <= 1025 { "8..16KiB" } else { "beyond-16KiB" }), || json!({"items": n})),
                        Ok(Err(d)) => {
                            run.violation(&format!("c16:{}:{}", what, d.split(|c: char| c.is_ascii_digit() || c == '(').next().unwrap_or("").trim()), &format!("{} items, version {}: {}", n, version, d), json!({"items": n, "version": version}));
                        }
                        Err(p) => {
                            run.violation(&format!("c16:{}:{}", what, vp_core::panic_sig(&p)), &format!("{} items, version {}: {}", n, version, p), json!({"items": n, "version": version}));
                        }
                    }
                }
                lc
            })
            .reduce(LocalClasses::new, |a, b| a.merge(b));
        run.merge_classes(lc);
    }
    // double corruptions of table words (thorough) on a few files
    if thorough {
        let picks: Vec<&Df> = family.iter().filter(|d| d.types.len() == 2 && d.data.len() == 2).take(if deep { 40 } else { 6 }).collect();
        for df in picks {
            let built = build(df);
            let past = (built.meta.len() * 4 + built.data.len()) as i32;
            let n = built.meta.len();
            let pairs: Vec<(usize, usize)> = (0..n).flat_map(|i| ((i + 1)..n).map(move |j| (i, j))).collect();
            let lc = pairs
                .par_iter()
                .fold(LocalClasses::new, |mut lc, &(i, j)| {
                    for x in boundary(built.meta[i], past) {
                        for y in boundary(built.meta[j], past) {
                            let mut m = built.clone();
                            m.meta[i] = x;
                            m.meta[j] = y;
                            let b = bytes_of(&m);
                            lc.eval();
                            match vp_core::catch(|| traverse_raw(&b, None)) {
                                Ok(Ok(c)) => lc.class(&format!("pair:{}", c), || json!({"words": [built.names[i], built.names[j]], "set_to": [x, y]})),
                                Ok(Err(d)) => {
                                    run.violation(&format!("c16:pair:{}", d.split(|c: char| c.is_ascii_digit()).next().unwrap_or("")), &d, json!({"df": format!("{:?}", df), "words": [built.names[i], built.names[j]], "set_to": [x, y], "file_hex": vp_core::hex(&b)}));
                                }
                                Err(p) => {
                                    run.violation(&format!("c16:pair:{}", vp_core::panic_sig(&p)), &p, json!({"df": format!("{:?}", df), "words": [built.names[i], built.names[j]], "set_to": [x, y], "file_hex": vp_core::hex(&b)}));
                                }
                            }
                        }
                    }
                    lc
                })
                .reduce(LocalClasses::new, |a, b| a.merge(b));
            run.merge_classes(lc);
        }
    }
    // --- B. map level
    let maps = base_maps();
    for df in &maps {
        let built = build(df);
        let bytes = bytes_of(&built);
        run.add_evals(1);
        match vp_core::catch(|| traverse_map(&bytes)) {
            Ok(Ok(c)) => {
                run.class(&format!("basemap:v{}:{}", df.version, c), || json!({"map": "base"}));
                if !c.contains("err0") {
                    run.set(&format!("basemap_v{}_note", df.version), json!(format!("base map traversal had accessor errors: {}", c)));
                }
            }
            Ok(Err(d)) => {
                run.violation("c16:map:base", &d, json!({"map": "base", "version": df.version}));
            }
            Err(p) => {
                run.violation(&format!("c16:map:{}", vp_core::panic_sig(&p)), &p, json!({"map": "base", "version": df.version}));
            }
        }
        // every item word x boundary values
        let first_item_word = built.names.iter().position(|n| n.starts_with("item(")).unwrap();
        let vals: Vec<i32> = vec![i32::MIN, -2, -1, 0, 1, 2, 3, 4, 5, 6, 7, 8, 9, 10, 11, 255, 0x10000, i32::MAX];
        let idxs: Vec<usize> = (first_item_word..built.meta.len()).collect();
        let lc = idxs
            .par_iter()
            .fold(LocalClasses::new, |mut lc, &i| {
                let mut todo: Vec<Vec<(usize, i32)>> = vals.iter().filter(|v| **v != built.meta[i]).map(|v| vec![(i, *v)]).collect();
                if thorough {
                    for j in (i + 1)..(i + if deep { 14 } else { 6 }).min(built.meta.len()) {
                        for &x in &vals {
                            for &y in &vals {
                                todo.push(vec![(i, x), (j, y)]);
                            }
                        }
                    }
                }
                for ch in todo {
                    let mut m = built.clone();
                    for (k, v) in &ch {
                        m.meta[*k] = *v;
                    }
                    let b = bytes_of(&m);
                    lc.eval();
                    let case = || json!({"map_version": df.version, "changes": ch.iter().map(|(k, v)| json!({"word": built.names[*k], "set_to": v})).collect::<Vec<_>>(), "file_hex": vp_core::hex(&b)});
                    match vp_core::catch(|| traverse_map(&b)) {
                        Ok(Ok(c)) => lc.class(&format!("map:v{}:{}", df.version, c), case),
                        Ok(Err(d)) => {
                            run.violation(&format!("c16:map:{}", d.split(|c: char| c.is_ascii_digit()).next().unwrap_or("")), &d, case());
                        }
                        Err(p) => {
                            run.violation(&format!("c16:map:{}", vp_core::panic_sig(&p)), &p, case());
                        }
                    }
                }
                lc
            })
            .reduce(LocalClasses::new, |a, b| a.merge(b));
        run.merge_classes(lc);
        // data block variations: lengths of tile / string blocks
        for di in 0..df.data.len() {
            for newlen in [0usize, 1, 2, 3, 4, 5, 23, 24, 25, 48] {
                let mut d2 = df.clone();
                d2.data[di] = (0..newlen).map(|i| (i as u8) & 0x7f).collect();
                let b = bytes_of(&build(&d2));
                run.add_evals(1);
                match vp_core::catch(|| traverse_map(&b)) {
                    Ok(Ok(c)) => run.class(&format!("mapdata:v{}:{}", df.version, c), || json!({"data_block": di, "new_len": newlen})),
                    Ok(Err(d)) => {
                        run.violation("c16:mapdata", &d, json!({"data_block": di, "new_len": newlen, "map_version": df.version}));
                    }
                    Err(p) => {
                        run.violation(&format!("c16:mapdata:{}", vp_core::panic_sig(&p)), &p, json!({"data_block": di, "new_len": newlen, "map_version": df.version}));
                    }
                }
            }
        }
    }
    run.assume("files are presented to raw::Reader through in-memory callbacks (datafile level) and to datafile::Reader::new(File) / map::Reader::from_datafile through a memfd (file reader and map level); the in-memory callback refuses data buffers above 64 MiB");
    run.finish(
        "an independent v3/v4 writer (doc/datafile.md, zlib via the repository's binding) produces a family of well-formed files (0-3 item types, 0-2 items each with 0-3 words, 0-3 data blocks) and files with 470..560 / 1000..5000 items (index around and beyond the file reader's 8 KiB buffer) which must be returned exactly through the in-memory callbacks and through the real file path; every header / type-table / offset / size / item word set to ~20 boundary values and all pairs on 6 selected files (thorough: 40 files), truncation at every byte, data byte flips, magic variants, mutually consistent tables that announce one item or data block more than is stored (offset at and around the end of the section); a hand-built valid map (version, info, images, envelope, groups, tile/tele/quad/sound layers, a sound) with every item word set to 18 boundary values and pairs of words up to 5 apart (thorough: up to 13 apart) and data blocks resized; after opening, every accessor of the datafile and map readers is called and every index a layer hands out (image, envelope, sound, data) must lie in the range of its kind and is followed",
        true,
    );
}
