//! C17: teehistorian reading is independent of stream fragmentation; tick
//! numbers equal the documentation's; positions/inputs are running sums.

use libtw2_teehistorian::verif::Buffer;
use libtw2_teehistorian::verif::Callback;
use libtw2_teehistorian::verif::Reader;
use std::sync::Arc;
use vp_core::rayon::prelude::*;
use vp_core::serde_json::json;
use vp_core::LocalClasses;
use vp_core::Run;
use vp_core::Tier;

// --- independent encoder (doc/teehistorian.md, doc/int.md) ---------------------

fn enc_int(out: &mut Vec<u8>, v: i32) {
    let sign = v < 0;
    let mut bits: u32 = if sign { !(v as u32) } else { v as u32 };
    let mut b = (bits & 0x3f) as u8;
    if sign {
        b |= 0x40;
    }
    bits >>= 6;
    loop {
        if bits != 0 {
            out.push(b | 0x80);
            b = (bits & 0x7f) as u8;
            bits >>= 7;
        } else {
            out.push(b);
            break;
        }
    }
}

const UUID_TEE: [u8; 16] = [0x69, 0x9d, 0xb1, 0x7b, 0x8e, 0xfb, 0x34, 0xff, 0xb1, 0xd8, 0xda, 0x6f, 0x60, 0xc1, 0x5d, 0xd1];
// teehistorian-test@ddnet.tw
const UUID_TEST: [u8; 16] = [0x6b, 0xb8, 0xba, 0x88, 0x0f, 0x0b, 0x38, 0x2e, 0x8d, 0xae, 0xdb, 0xf4, 0x05, 0x2b, 0x8b, 0x7d];
// teehistorian-auth-logout@ddnet.tw
const UUID_AUTH_LOGOUT: [u8; 16] = [0xd4, 0xf5, 0xab, 0xe8, 0xed, 0xd2, 0x3f, 0xb9, 0xab, 0xd8, 0x1c, 0x8b, 0xb8, 0x4f, 0x4a, 0x63];

fn header() -> Vec<u8> {
    let mut h = UUID_TEE.to_vec();
    h.extend_from_slice(br#"{"version":"2","game_uuid":"a1eb7182-796e-3b3e-941d-38ca71b2a4a8","start_time":"2017-10-25T14:44:39+02:00","server_port":"8303","map_name":"dm1","map_size":"5805","map_crc":"f2159e6e","config":{"sv_name":"x"}}"#);
    h.push(0);
    h
}

#[derive(Clone, Debug, PartialEq)]
enum Ev {
    New(i32, i32, i32),
    Diff(i32, i32, i32),
    Old(i32),
    Skip(i32),
    InNew(i32, i32),
    InDiff(i32, i32),
    Msg(i32, usize),
    ExTest(usize),
    ExLogout(i32),
    Join(i32),
    Drop(i32),
    Finish,
}

fn input_vec(seed: i32) -> [i32; 10] {
    let mut a = [0i32; 10];
    for (i, x) in a.iter_mut().enumerate() {
        *x = seed.wrapping_mul(31).wrapping_add(i as i32 * 7) ^ if i == 3 { i32::MAX } else { 0 };
    }
    a
}

fn encode(evs: &[Ev]) -> Vec<u8> {
    let mut o = header();
    for e in evs {
        match e {
            Ev::Diff(cid, dx, dy) => {
                enc_int(&mut o, *cid);
                enc_int(&mut o, *dx);
                enc_int(&mut o, *dy);
            }
            Ev::Finish => enc_int(&mut o, -1),
            Ev::Skip(dt) => {
                enc_int(&mut o, -2);
                enc_int(&mut o, *dt);
            }
            Ev::New(cid, x, y) => {
                enc_int(&mut o, -3);
                enc_int(&mut o, *cid);
                enc_int(&mut o, *x);
                enc_int(&mut o, *y);
            }
            Ev::Old(cid) => {
                enc_int(&mut o, -4);
                enc_int(&mut o, *cid);
            }
            Ev::InDiff(cid, seed) => {
                enc_int(&mut o, -5);
                enc_int(&mut o, *cid);
                for v in input_vec(*seed) {
                    enc_int(&mut o, v);
                }
            }
            Ev::InNew(cid, seed) => {
                enc_int(&mut o, -6);
                enc_int(&mut o, *cid);
                for v in input_vec(*seed) {
                    enc_int(&mut o, v);
                }
            }
            Ev::Msg(cid, len) => {
                enc_int(&mut o, -7);
                enc_int(&mut o, *cid);
                enc_int(&mut o, *len as i32);
                o.extend((0..*len).map(|i| (i * 13 + 1) as u8));
            }
            Ev::Join(cid) => {
                enc_int(&mut o, -8);
                enc_int(&mut o, *cid);
            }
            Ev::Drop(cid) => {
                enc_int(&mut o, -9);
                enc_int(&mut o, *cid);
                o.extend_from_slice(b"timeout\0");
            }
            Ev::ExTest(len) => {
                enc_int(&mut o, -11);
                o.extend_from_slice(&UUID_TEST);
                enc_int(&mut o, *len as i32);
                o.extend((0..*len).map(|i| (i * 5 + 3) as u8));
            }
            Ev::ExLogout(cid) => {
                enc_int(&mut o, -11);
                o.extend_from_slice(&UUID_AUTH_LOGOUT);
                let mut body = Vec::new();
                enc_int(&mut body, *cid);
                enc_int(&mut o, body.len() as i32);
                o.extend(body);
            }
        }
    }
    o
}

// --- reference decoding (doc pseudo-code) ---------------------------------------

/// Per non-tick output item: (tick per the documentation, expected rendering fragment)
fn reference(evs: &[Ev]) -> Option<Vec<(i32, String)>> {
    let mut tick: i32 = 0;
    let mut implicit: Option<i32> = None;
    let mut pos: std::collections::BTreeMap<i32, (i32, i32)> = Default::default();
    let mut inp: std::collections::BTreeMap<i32, [i32; 10]> = Default::default();
    let mut out = Vec::new();
    for e in evs {
        let player_cid = match e {
            Ev::New(c, ..) | Ev::Diff(c, ..) | Ev::Old(c) => Some(*c),
            _ => None,
        };
        if let Ev::Skip(dt) = e {
            tick = tick.checked_add(*dt)?.checked_add(1)?;
            implicit = None;
            continue;
        }
        if let Some(c) = player_cid {
            if let Some(i) = implicit {
                if c <= i {
                    tick = tick.checked_add(1)?;
                }
            }
            implicit = Some(c);
        }
        match e {
            Ev::New(c, x, y) => {
                if pos.insert(*c, (*x, *y)).is_some() {
                    return None;
                }
                out.push((tick, format!("PlayerNew {{ cid: {}, pos: ({}, {}) }}", c, x, y)));
            }
            Ev::Diff(c, dx, dy) => {
                let p = pos.get_mut(c)?;
                let old = *p;
                *p = (p.0.wrapping_add(*dx), p.1.wrapping_add(*dy));
                out.push((tick, format!("PlayerChange {{ cid: {}, pos: ({}, {}), old_pos: ({}, {}) }}", c, p.0, p.1, old.0, old.1)));
            }
            Ev::Old(c) => {
                let p = pos.remove(c)?;
                out.push((tick, format!("PlayerOld {{ cid: {}, pos: ({}, {}) }}", c, p.0, p.1)));
            }
            Ev::InNew(c, s) => {
                inp.insert(*c, input_vec(*s));
                out.push((tick, format!("Input {{ cid: {}, input: {:?} }}", c, input_vec(*s))));
            }
            Ev::InDiff(c, s) => {
                let cur = inp.get_mut(c)?;
                let d = input_vec(*s);
                for k in 0..10 {
                    cur[k] = cur[k].wrapping_add(d[k]);
                }
                out.push((tick, format!("Input {{ cid: {}, input: {:?} }}", c, cur)));
            }
            Ev::Msg(c, _) => out.push((tick, format!("Message {{ cid: {}", c))),
            Ev::Join(c) => out.push((tick, format!("Join {{ cid: {}", c))),
            Ev::Drop(c) => out.push((tick, format!("Drop {{ cid: {}", c))),
            Ev::ExTest(_) => out.push((tick, "".into())),
            Ev::ExLogout(c) => out.push((tick, format!("AuthLogout {{ cid: {}", c))),
            Ev::Finish => break,
            Ev::Skip(_) => unreachable!(),
        }
    }
    Some(out)
}

// --- the reader under a fragmentation schedule -------------------------------------

struct Frag<'a> {
    data: &'a [u8],
    pos: usize,
    /// piece lengths; afterwards everything that is left
    pieces: &'a [usize],
    next: usize,
    /// bytes left of the current piece (None = take the next piece)
    left: Option<usize>,
    reads: usize,
}

impl<'a> Callback for Frag<'a> {
    type Error = ();
    fn read_at_most(&mut self, buffer: &mut [u8]) -> Result<Option<usize>, ()> {
        self.reads += 1;
        if self.reads > 20_000_000 {
            return Err(()); // the reader keeps asking without consuming
        }
        let want = match self.left.take() {
            Some(l) => l,
            None => {
                if self.next < self.pieces.len() {
                    self.next += 1;
                    self.pieces[self.next - 1]
                } else if self.pos == self.data.len() {
                    return Ok(None);
                } else {
                    self.data.len() - self.pos
                }
            }
        };
        let n = want.min(buffer.len()).min(self.data.len() - self.pos);
        if n < want && self.pos + n < self.data.len() {
            // the reader's buffer was smaller than the piece: the rest comes with the next read
            self.left = Some(want - n);
        }
        buffer[..n].copy_from_slice(&self.data[self.pos..self.pos + n]);
        self.pos += n;
        Ok(Some(n))
    }
}

/// Ok(items rendered) or Err(error rendering)
fn read_all(data: &[u8], pieces: &[usize]) -> Result<Vec<String>, String> {
    let mut cb = Frag { data, pos: 0, pieces, next: 0, left: None, reads: 0 };
    let mut buffer = Buffer::new();
    let mut reader = match Reader::new(&mut cb, &mut buffer) {
        Ok((_header, r)) => r,
        Err(e) => return Err(format!("header: {:?}", e)),
    };
    let mut out = Vec::new();
    loop {
        match reader.read(&mut cb, &mut buffer) {
            Ok(Some(item)) => {
                out.push(format!("{:?}", item));
                // the accumulated state the reader exposes next to the items (positions and inputs
                // per client id) is part of what must not depend on the fragmentation
                let st: Vec<String> = reader.cids().map(|c| format!("{:?}/{:?}", reader.player_pos(c).map(|p| (p.x, p.y)), reader.input(c).map(|i| i.to_vec()))).collect();
                out.push(format!("STATE {}", st.join(" ")));
            }
            Ok(None) => return Ok(out),
            Err(e) => {
                out.push(format!("ERROR {:?}", e));
                return Err(out.join("\n"));
            }
        }
        if out.len() > 100_000 {
            return Err("reader yields items without end".into());
        }
    }
}

fn check_structure(evs: &[Ev], items: &[String]) -> Result<(), String> {
    let reference = reference(evs).ok_or("history not valid")?;
    let mut k = 0;
    let mut open: Option<i32> = None;
    let mut last_tick: Option<i32> = None;
    for it in items {
        if it.starts_with("STATE ") {
            continue;
        }
        if let Some(t) = it.strip_prefix("TickStart(").and_then(|s| s.strip_suffix(')')) {
            let t: i32 = t.parse().unwrap();
            if open.is_some() {
                return Err(format!("TickStart({}) inside an open tick", t));
            }
            if let Some(l) = last_tick {
                if t <= l {
                    return Err(format!("tick numbers not strictly increasing: {} after {}", t, l));
                }
            }
            open = Some(t);
            last_tick = Some(t);
        } else if let Some(t) = it.strip_prefix("TickEnd(").and_then(|s| s.strip_suffix(')')) {
            let t: i32 = t.parse().unwrap();
            if open != Some(t) {
                return Err(format!("TickEnd({}) does not close the open tick {:?}", t, open));
            }
            open = None;
        } else {
            let t = open.ok_or_else(|| format!("item {} outside of a tick", it))?;
            let (rt, frag) = reference.get(k).ok_or("more items than messages")?;
            if t != *rt {
                return Err(format!("message #{} ({}) is reported in tick {} but the documentation assigns tick {}", k, it, t, rt));
            }
            if !it.contains(frag.as_str()) {
                return Err(format!("message #{}: reader reports {} but the running sums give {}", k, it, frag));
            }
            k += 1;
        }
    }
    if open.is_some() {
        return Err("tick left open at the end".into());
    }
    if k != reference.len() {
        return Err(format!("{} items for {} messages", k, reference.len()));
    }
    Ok(())
}

fn alphabet() -> Vec<Ev> {
    vec![
        Ev::New(0, 10, -10),
        Ev::New(1, i32::MAX, i32::MIN),
        Ev::New(2, 0, 0),
        Ev::Diff(0, 1, -1),
        Ev::Diff(1, 1, -1),
        Ev::Diff(2, -5, 100000),
        Ev::Old(0),
        Ev::Old(1),
        Ev::Skip(0),
        Ev::Skip(1),
        Ev::Skip(5),
        // the largest skips: straight to the last tick number, and past it
        Ev::Skip(i32::MAX - 1),
        Ev::Skip(i32::MAX),
        Ev::InNew(0, 3),
        Ev::InDiff(0, 9),
        Ev::Msg(1, 5),
        Ev::ExTest(3),
        Ev::ExLogout(2),
        Ev::Join(1),
        Ev::Drop(1),
    ]
}

fn schedules(len: usize, thorough: bool) -> Vec<Vec<usize>> {
    let mut v: Vec<Vec<usize>> = vec![vec![], vec![1; len]];
    for cut in 1..len {
        v.push(vec![cut]);
        // with a zero-length read before and after the cut
        v.push(vec![cut, 0]);
        v.push(vec![0, cut]);
    }
    if thorough {
        for a in 1..len {
            for b in 1..(len - a) {
                v.push(vec![a, b]);
            }
        }
    } else {
        // three pieces around the header/message border and a few strides
        for a in (1..len).step_by(7) {
            for b in [1usize, 2, 3] {
                if a + b < len {
                    v.push(vec![a, b]);
                }
            }
        }
    }
    // byte-by-byte with a zero-length read inserted at every position
    for z in (0..len).step_by(if thorough { 1 } else { 5 }) {
        let mut s = vec![1; len];
        s.insert(z, 0);
        v.push(s);
    }
    v
}

fn main() {
    let run = Run::new("C17", "exploration");
    let thorough = run.tier == Tier::Thorough;
    let depth = if thorough { 5 } else { 4 };
    let alpha = alphabet();
    let n = alpha.len();
    let total: usize = (0..=depth).map(|d| n.pow(d as u32)).sum();
    let hlen = header().len();
    let lc = (0..total)
        .into_par_iter()
        .fold(LocalClasses::new, |mut lc, idx| {
            let mut i = idx;
            let mut d = 0;
            while i >= n.pow(d as u32) {
                i -= n.pow(d as u32);
                d += 1;
            }
            let mut evs = Vec::new();
            for _ in 0..d {
                evs.push(alpha[i % n].clone());
                i /= n;
            }
            evs.push(Ev::Finish);
            if reference(&evs).is_none() {
                // not a valid server history (a tick number out of range, a player added twice,
                // ...): still a byte stream - items or an error, no panic, and the same outcome
                // whether it arrives whole or byte by byte
                let data = encode(&evs);
                let case = |extra: vp_core::serde_json::Value| json!({"history": format!("{:?}", evs), "stream_hex": vp_core::hex(&data), "extra": extra});
                lc.eval();
                let whole = match vp_core::catch(|| read_all(&data, &[])) {
                    Ok(r) => r,
                    Err(p) => {
                        run.violation(&format!("c17:invalid-history:{}", vp_core::panic_sig(&p)), &p, case(json!(null)));
                        return lc;
                    }
                };
                let pieces: Vec<usize> = std::iter::once(hlen).chain(std::iter::repeat(1).take(data.len() - hlen)).collect();
                match vp_core::catch(|| read_all(&data, &pieces)) {
                    Ok(r) if r.is_ok() == whole.is_ok() && (r.is_err() || r == whole) => {}
                    Ok(r) => {
                        run.violation("c17:invalid-history:fragmentation-changes-outcome", &format!("whole: {:?}, byte by byte: {:?}", whole.as_ref().map(|i| i.len()), r.as_ref().map(|i| i.len())), case(json!(null)));
                    }
                    Err(p) => {
                        run.violation(&format!("c17:invalid-history:{}", vp_core::panic_sig(&p)), &p, case(json!({"pieces": "byte by byte"})));
                    }
                }
                lc.class(&format!("invalid-history:{}", if whole.is_ok() { "items" } else { "error" }), || json!(format!("{:?}", evs)));
                return lc;
            }
            let data = encode(&evs);
            let case = |extra: vp_core::serde_json::Value| json!({"history": format!("{:?}", evs), "stream_hex": vp_core::hex(&data), "extra": extra});
            lc.eval();
            let base = match vp_core::catch(|| read_all(&data, &[])) {
                Ok(Ok(items)) => items,
                Ok(Err(e)) => {
                    run.violation("c17:valid-stream-rejected", &format!("valid stream rejected: {}", e), case(json!(null)));
                    return lc;
                }
                Err(p) => {
                    run.violation(&format!("c17:{}", vp_core::panic_sig(&p)), &p, case(json!(null)));
                    return lc;
                }
            };
            if let Err(e) = check_structure(&evs, &base) {
                let sig = e.split(|c: char| c.is_ascii_digit() || c == '(').next().unwrap_or("").trim().to_string();
                run.violation(&format!("c17:structure:{}", sig), &e, case(json!({"items": base})));
                return lc;
            }
            // every fragmentation of the message part; the header is cut at a stride
            let only_msgs = data.len() - hlen;
            let scheds = schedules(only_msgs, thorough && d <= 4);
            for s in scheds {
                lc.eval();
                // header delivered in one piece of hlen bytes, then the schedule
                let mut pieces = vec![hlen];
                pieces.extend(s);
                match vp_core::catch(|| read_all(&data, &pieces)) {
                    Ok(Ok(items)) if items == base => {}
                    Ok(other) => {
                        run.violation("c17:fragmentation-changes-items", &format!("pieces {:?}: {:?} instead of {:?}", &pieces[..pieces.len().min(12)], other.map(|i| i.len()), base.len()), case(json!({"pieces": pieces})));
                        break;
                    }
                    Err(p) => {
                        run.violation(&format!("c17:{}", vp_core::panic_sig(&p)), &p, case(json!({"pieces": pieces})));
                        break;
                    }
                }
            }
            // header cut everywhere (once per depth-0/1 history)
            if d <= 1 {
                for cut in 1..hlen {
                    lc.eval();
                    match vp_core::catch(|| read_all(&data, &[cut])) {
                        Ok(Ok(items)) if items == base => {}
                        other => {
                            run.violation("c17:header-fragmentation", &format!("header cut at {}: {:?}", cut, other.map(|r| r.map(|i| i.len()))), case(json!({"cut": cut})));
                            break;
                        }
                    }
                }
            }
            // truncations and single-byte substitutions: items or error, no panic, terminates
            if d <= 3 || thorough {
                for cut in hlen..data.len() {
                    lc.eval();
                    if let Err(p) = vp_core::catch(|| read_all(&data[..cut], &[])) {
                        run.violation(&format!("c17:truncated:{}", vp_core::panic_sig(&p)), &p, case(json!({"truncated_to": cut})));
                    }
                }
                for pos in hlen..data.len() {
                    for v in [0x00u8, 0x01, 0x3f, 0x40, 0x7f, 0x80, 0xff] {
                        if data[pos] == v {
                            continue;
                        }
                        let mut m = data.clone();
                        m[pos] = v;
                        lc.eval();
                        match vp_core::catch(|| (read_all(&m, &[]), read_all(&m, &vec![1; m.len()]))) {
                            Ok((a, b)) => {
                                // corrupted streams too must not depend on fragmentation
                                let same = match (&a, &b) {
                                    (Ok(x), Ok(y)) => x == y,
                                    (Err(x), Err(y)) => x == y,
                                    _ => false,
                                };
                                if !same {
                                    run.violation("c17:corrupted-stream-fragmentation", &format!("byte {} := {:02x}: whole {:?} vs byte-by-byte {:?}", pos, v, a.as_ref().map(|i| i.len()), b.as_ref().map(|i| i.len())), case(json!({"pos": pos, "value": v})));
                                }
                            }
                            Err(p) => {
                                run.violation(&format!("c17:corrupted:{}", vp_core::panic_sig(&p)), &p, case(json!({"pos": pos, "value": v})));
                            }
                        }
                    }
                }
            }
            lc.class(&format!("history:len{}:ticks{}", d, base.iter().filter(|i| i.starts_with("TickStart")).count().min(4)), || json!({"history": format!("{:?}", evs), "items": base}));
            lc
        })
        .reduce(LocalClasses::new, |a, b| a.merge(b));
    run.merge_classes(lc);
    // long streams: buffer growth and compaction around multiples of 8192
    for variant in 0..2 {
        let mut evs = vec![Ev::New(0, 0, 0), Ev::New(1, 5, 5), Ev::InNew(0, 1)];
        for i in 0..1500 {
            evs.push(Ev::Diff(0, i, -i));
            evs.push(Ev::Diff(1, 1, 1));
            if i % 3 == variant {
                evs.push(Ev::Msg(1, 200 + (i as usize % 7) * 100));
            }
            if i % 50 == 0 {
                evs.push(Ev::Skip(i % 4));
            }
            if i % 11 == 0 {
                evs.push(Ev::InDiff(0, i));
            }
        }
        evs.push(Ev::Finish);
        let data = encode(&evs);
        run.set(&format!("long_stream_{}_bytes", variant), json!(data.len()));
        let base = match vp_core::catch(|| read_all(&data, &[])) {
            Ok(Ok(b)) => b,
            other => {
                run.violation("c17:long-stream-rejected", &format!("{:?}", other.map(|r| r.map(|i| i.len()))), json!({"long_stream": variant}));
                continue;
            }
        };
        if let Err(e) = check_structure(&evs, &base) {
            run.violation("c17:long-stream-structure", &e, json!({"long_stream": variant}));
        }
        let mut scheds: Vec<Vec<usize>> = Vec::new();
        let mut m = 8192;
        while m < data.len() + 8192 {
            for delta in -16i64..=16 {
                let c = m as i64 + delta;
                if c > 0 && (c as usize) < data.len() {
                    scheds.push(vec![c as usize]);
                    scheds.push(vec![c as usize, 1, 8191]);
                }
            }
            m += 8192;
        }
        for chunk in [1usize, 2, 7, 100, 4095, 4096, 4097, 8191, 8192, 8193, 10000] {
            scheds.push(vec![chunk; data.len() / chunk + 1]);
        }
        scheds.par_iter().for_each(|s| {
            run.add_evals(1);
            match vp_core::catch(|| read_all(&data, s)) {
                Ok(Ok(items)) if items == base => run.class(&format!("long:{}", if s.len() > 3 { "fixed-chunks" } else { "cut-near-8192-multiple" }), || json!({"pieces_head": &s[..s.len().min(4)]})),
                other => {
                    run.violation("c17:long-stream-fragmentation", &format!("pieces {:?}...: {:?}", &s[..s.len().min(4)], other.map(|r| r.map(|i| i.len()))), json!({"long_stream": variant, "pieces_head": &s[..s.len().min(4)]}));
                }
            }
        });
    }
    // the same kind of long stream at every byte alignment relative to the reader's 8 KiB window
    // (an extension message of k bytes in front shifts everything after it), with a third player
    // that joins and leaves all the time so that the two-integer PLAYER_NEW / PLAYER_OLD kinds
    // and record ends fall on the window boundaries in every possible way
    {
        let shifts: Vec<usize> = (0..=48).collect();
        shifts.par_iter().for_each(|&k| {
            let mut evs = vec![Ev::ExTest(k), Ev::New(0, 0, 0), Ev::New(1, 5, 5), Ev::InNew(0, 1)];
            for i in 0..1200 {
                evs.push(Ev::Diff(0, i, -i));
                evs.push(Ev::Diff(1, 1, 1));
                match i % 4 {
                    0 => evs.push(Ev::New(2, i, 7)),
                    1 => evs.push(Ev::Diff(2, 1, -1)),
                    2 => evs.push(Ev::Old(2)),
                    _ => {}
                }
                if i % 5 == 0 {
                    evs.push(Ev::Msg(1, 3 + (i as usize % 13)));
                }
                if i % 50 == 0 {
                    evs.push(Ev::Skip(i % 4));
                }
            }
            evs.push(Ev::Finish);
            let data = encode(&evs);
            run.add_evals(1);
            let base = match vp_core::catch(|| read_all(&data, &[])) {
                Ok(Ok(b)) => b,
                other => {
                    run.violation("c17:shifted-long-stream-rejected", &format!("shift {}: {:?}", k, other.map(|r| r.map(|i| i.len()))), json!({"shift": k, "bytes": data.len()}));
                    return;
                }
            };
            if let Err(e) = check_structure(&evs, &base) {
                run.violation("c17:shifted-long-stream-structure", &format!("shift {}: {}", k, e), json!({"shift": k}));
                return;
            }
            for chunk in [1usize, 4096, 8191, 8192, 8193] {
                run.add_evals(1);
                match vp_core::catch(|| read_all(&data, &vec![chunk; data.len() / chunk + 1])) {
                    Ok(Ok(items)) if items == base => {}
                    other => {
                        run.violation("c17:shifted-long-stream-fragmentation", &format!("shift {} chunk {}: {:?}", k, chunk, other.map(|r| r.map(|i| i.len()))), json!({"shift": k, "chunk": chunk}));
                        return;
                    }
                }
            }
            run.class("long:shifted", || json!({"shift": k, "bytes": data.len()}));
        });
    }
    run.assume("streams are produced by an independent encoder from server histories that are valid per the format (players exist before they move, inputs are new before they are diffed)");
    run.finish(
        &format!("all valid server histories of length <= {} over a 20-message alphabet (players 0..2 new/diff/old, tick skips 0/1/5/i32::MAX-1/i32::MAX, input new/diff, message, two extension messages, join, drop): decoded under every 1- and 2-piece fragmentation of the message part (quick: strided 3-piece; thorough: every 3-piece for length <= 4), byte-by-byte, with a zero-length read at every position, header cut at every byte; oracle: identical items, nesting, strictly increasing ticks equal to the documentation's pseudo-code, positions/inputs equal running sums; every truncation and 7-value byte substitution: value or error, fragmentation-independent; the histories that are not valid (tick number out of range, player added twice, ...) are fed as well: items or an error, no panic, same outcome whole and byte by byte; two long streams (> 3 x 8192 bytes) cut within +-16 bytes of every multiple of 8192 and in fixed chunks; 49 long streams with a player joining and leaving all the time, shifted byte by byte against the reader's 8 KiB window", depth),
        true,
    );
}
