//! C15: a recorded demo plays back what was recorded.

use arrayvec::ArrayVec;
use libtw2_demo::ddnet::Chunk;
use libtw2_demo::ddnet::DemoReader;
use libtw2_demo::ddnet::DemoWriter;
use libtw2_demo::DemoKind;
use libtw2_demo::RawChunk;
use libtw2_demo::Reader;
use libtw2_demo::Writer;
use libtw2_gamenet_common::traits::SnapObj as _;
use libtw2_gamenet_ddnet::snap_obj;
use libtw2_gamenet_ddnet::Protocol;
use libtw2_gamenet_ddnet::SnapObj;
use libtw2_huffman::instances::TEEWORLDS as HUFFMAN;
use std::io::Cursor;
use std::sync::Arc;
use vp_core::rayon::prelude::*;
use vp_core::serde_json::json;
use vp_core::LocalClasses;
use vp_core::Run;
use vp_core::Tier;

#[derive(Clone, Debug, PartialEq)]
enum C {
    Tick(i32, bool), // step, keyframe
    TickAbs(i32, bool), // absolute tick number, keyframe
    Snap(usize),
    Delta(usize),
    Msg(usize),
}

#[derive(Clone, Debug, PartialEq)]
enum Out {
    Tick(i32, bool),
    Snap(Vec<u8>),
    Delta(Vec<u8>),
    Msg(Vec<u8>),
}

fn zeros_with_compressed_len(target: usize) -> Option<Vec<u8>> {
    // content: cycling pattern so that the compressed size grows slowly
    for l in 0..70000usize {
        let p: Vec<u8> = (0..l).map(|i| (i % 3) as u8).collect();
        let c = HUFFMAN.compressed_len(&p);
        if c == target {
            return Some(p);
        }
        if c > target {
            break;
        }
    }
    None
}

fn payloads(run: &Arc<Run>) -> Vec<Vec<u8>> {
    let mut v = Vec::new();
    let mut found = Vec::new();
    for t in [1usize, 2, 29, 30, 31, 254, 255, 256, 257, 1000] {
        if let Some(p) = zeros_with_compressed_len(t) {
            found.push(t);
            v.push(p);
        }
    }
    run.set("payload_compressed_sizes", json!(found));
    v
}

fn big_payloads() -> Vec<Vec<u8>> {
    // the largest incompressible payload whose compressed form still fits a 16-bit size
    let mut lo = 1000usize;
    let mut hi = 65536usize;
    while lo < hi {
        let mid = (lo + hi + 1) / 2;
        let p = vp_core::lcg_bytes(77, mid);
        if HUFFMAN.compressed_len(&p) <= 65535 {
            lo = mid;
        } else {
            hi = mid - 1;
        }
    }
    vec![vp_core::lcg_bytes(77, lo), vp_core::lcg_bytes(77, lo - 1), vec![0u8; 65536], (0..65536).map(|i| (i % 251) as u8).filter(|_| true).take(40000).collect()]
}

fn msgs() -> Vec<Vec<u8>> {
    vec![vec![], vec![7], vec![1, 2, 3], vec![1, 2, 3, 4], vec![0xff, 0xff, 0xff, 0xff, 0x80], vp_core::lcg_bytes(5, 100), vec![0; 64]]
}

fn write_read(seq: &[C], pl: &[Vec<u8>], ms: &[Vec<u8>], hdr: (usize, usize, usize, bool)) -> Result<String, String> {
    let (nv, mn, ts, sha) = hdr;
    let net_version: Vec<u8> = (0..nv).map(|i| b'a' + (i % 26) as u8).collect();
    let map_name: Vec<u8> = (0..mn).map(|i| b'A' + (i % 26) as u8).collect();
    let timestamp: Vec<u8> = (0..ts).map(|i| b'0' + (i % 10) as u8).collect();
    let map: Vec<u8> = if sha { vec![1, 2, 3, 4, 5] } else { vec![] };
    let sha256 = if sha { Some(libtw2_common::digest::Sha256([0x5a; 32])) } else { None };
    let mut file = Cursor::new(Vec::new());
    let mut expected: Vec<Out> = Vec::new();
    {
        let mut w = Writer::new(&mut file, &net_version, &map_name, sha256, 0xdead_beef, if sha { DemoKind::Server } else { DemoKind::Client }, 1234, &timestamp, &map).map_err(|e| format!("Writer::new: {:?}", e))?;
        let mut tick = 100;
        let mut first = true;
        for c in seq {
            match c {
                C::Tick(step, key) => {
                    if !first {
                        tick += step;
                    }
                    first = false;
                    w.write_chunk(RawChunk::Tick { tick, keyframe: *key }).map_err(|e| format!("write tick: {:?}", e))?;
                    expected.push(Out::Tick(tick, *key));
                }
                C::TickAbs(t, key) => {
                    tick = *t;
                    first = false;
                    w.write_chunk(RawChunk::Tick { tick, keyframe: *key }).map_err(|e| format!("write tick: {:?}", e))?;
                    expected.push(Out::Tick(tick, *key));
                }
                C::Snap(i) => {
                    let av: ArrayVec<[u8; 65536]> = pl[*i].iter().cloned().collect();
                    w.write_chunk(RawChunk::Snapshot(&av)).map_err(|e| format!("write snapshot: {:?}", e))?;
                    expected.push(Out::Snap(pl[*i].clone()));
                }
                C::Delta(i) => {
                    w.write_snapshot_delta(&pl[*i]).map_err(|e| format!("write delta: {:?}", e))?;
                    expected.push(Out::Delta(pl[*i].clone()));
                }
                C::Msg(i) => {
                    w.write_chunk(RawChunk::Message(&ms[*i])).map_err(|e| format!("write message: {:?}", e))?;
                    let mut m = ms[*i].clone();
                    while m.len() % 4 != 0 {
                        m.push(0);
                    }
                    expected.push(Out::Msg(m));
                }
            }
        }
    }
    let bytes = file.into_inner();
    let mut warn: Vec<libtw2_demo::Warning> = Vec::new();
    let mut r = Reader::new(Cursor::new(&bytes[..]), &mut warn).map_err(|e| format!("Reader::new: {:?}", e))?;
    if r.net_version() != &net_version[..] || r.map_name() != &map_name[..] || r.timestamp() != &timestamp[..] || r.map_data() != &map[..] || r.map_size() as usize != map.len() || r.map_crc() != 0xdead_beef || r.length() != 1234 || r.map_sha256().map(|s| s.0) != sha256.map(|s| s.0) || !r.timeline_markers().is_empty() {
        return Err("header fields differ".into());
    }
    match (r.kind(), sha) {
        (DemoKind::Server, true) | (DemoKind::Client, false) => {}
        _ => return Err("demo kind differs".into()),
    }
    let mut got: Vec<Out> = Vec::new();
    loop {
        match r.read_chunk(&mut warn).map_err(|e| format!("read_chunk: {:?} after {} chunks", e, got.len()))? {
            None => break,
            Some(RawChunk::Tick { tick, keyframe }) => got.push(Out::Tick(tick, keyframe)),
            Some(RawChunk::Snapshot(s)) => got.push(Out::Snap(s.to_vec())),
            Some(RawChunk::SnapshotDelta(s)) => got.push(Out::Delta(s.to_vec())),
            Some(RawChunk::Message(m)) => got.push(Out::Msg(m.to_vec())),
            Some(RawChunk::Unknown) => return Err("unknown chunk read back".into()),
        }
        if got.len() > seq.len() + 2 {
            return Err("reader returns more chunks than were written".into());
        }
    }
    if !warn.is_empty() {
        return Err(format!("warnings {:?}", warn));
    }
    if got != expected {
        let first = got.iter().zip(&expected).position(|(a, b)| a != b).unwrap_or(got.len().min(expected.len()));
        return Err(format!("chunk sequence differs at chunk {} ({} read, {} written)", first, got.len(), expected.len()));
    }
    Ok(format!("raw:len{}", seq.len()))
}

fn raw_level(run: &Arc<Run>, depth: usize) {
    let pl = payloads(run);
    let ms = msgs();
    let mut alpha: Vec<C> = Vec::new();
    for step in [1, 31, 32, 33] {
        alpha.push(C::Tick(step, false));
    }
    alpha.push(C::Tick(1, true));
    alpha.push(C::Tick(300, true));
    for i in [0usize, 2, 3, 4, 6, 7] {
        if i < pl.len() {
            alpha.push(C::Snap(i));
            alpha.push(C::Delta(i));
        }
    }
    for i in 0..ms.len() {
        alpha.push(C::Msg(i));
    }
    let n = alpha.len();
    run.set("raw_alphabet_size", json!(n));
    let total: usize = (0..=depth).map(|d| n.pow(d as u32)).sum();
    let lc = (0..total)
        .into_par_iter()
        .fold(LocalClasses::new, |mut lc, idx| {
            let mut i = idx;
            let mut d = 0;
            while i >= n.pow(d as u32) {
                i -= n.pow(d as u32);
                d += 1;
            }
            let mut seq = Vec::new();
            for _ in 0..d {
                seq.push(alpha[i % n].clone());
                i /= n;
            }
            // the reader needs an absolute tick before any delta tick: sequences start with a tick
            let mut full = vec![C::Tick(0, idx % 2 == 0)];
            full.extend(seq);
            lc.eval();
            match vp_core::catch(|| write_read(&full, &pl, &ms, (3, 4, 5, idx % 3 == 0))) {
                Ok(Ok(c)) => lc.class(&c, || json!(format!("{:?}", full))),
                Ok(Err(msg)) => {
                    run.violation(&format!("c15:raw:{}", msg.split(|c: char| c.is_ascii_digit()).next().unwrap_or("")), &msg, json!({"chunks": format!("{:?}", full)}));
                }
                Err(p) => {
                    run.violation(&format!("c15:raw:{}", vp_core::panic_sig(&p)), &p, json!({"chunks": format!("{:?}", full)}));
                }
            }
            lc
        })
        .reduce(LocalClasses::new, |a, b| a.merge(b));
    run.merge_classes(lc);
    // every payload size once, as snapshot and as delta, incl. the largest representable
    let mut all = pl.clone();
    all.extend(big_payloads());
    let cases: Vec<(usize, bool)> = (0..all.len()).flat_map(|i| [(i, false), (i, true)]).collect();
    cases.par_iter().for_each(|&(i, delta)| {
        run.add_evals(1);
        let seq = vec![C::Tick(0, true), if delta { C::Delta(i) } else { C::Snap(i) }, C::Tick(1, false)];
        let clen = HUFFMAN.compressed_len(&all[i]);
        match vp_core::catch(|| write_read(&seq, &all, &ms, (0, 0, 0, false))) {
            Ok(Ok(_)) => run.class(&format!("payload:compressed-size-{}", if clen < 30 { "<30" } else if clen < 256 { "30..255" } else if clen < 60000 { "256.." } else { "near-max" }), || json!({"payload_len": all[i].len(), "compressed_len": clen})),
            Ok(Err(msg)) => {
                run.violation("c15:raw:payload-size", &format!("payload {} bytes (compressed {}): {}", all[i].len(), clen, msg), json!({"payload_len": all[i].len(), "compressed_len": clen, "delta": delta}));
            }
            Err(p) => {
                run.violation(&format!("c15:raw:{}", vp_core::panic_sig(&p)), &format!("payload {} bytes (compressed {}): {}", all[i].len(), clen, p), json!({"payload_len": all[i].len(), "compressed_len": clen, "delta": delta}));
            }
        }
    });
    // long messages: the reader unpacks a message into a buffer of its own, four bytes per integer,
    // after the Huffman stage; how long a message it can return must not depend on the chunks read
    // before. Lengths around every power of two up to the 64 KiB the reader's buffer holds, with
    // contents that compress well (zeros, small integers) or not at all, as the first chunk after
    // the tick, after a small snapshot and after a large one.
    {
        let mut lens: Vec<usize> = Vec::new();
        for p in [1024usize, 2048, 4096, 8192, 16384, 32768, 65536] {
            for d in [-8i64, -4, -3, -1, 0, 1, 4, 8] {
                let l = p as i64 + d;
                if l <= 65536 {
                    lens.push(l as usize);
                }
            }
        }
        lens.extend([1500, 3000, 5000, 12000, 20000, 40000, 50000, 60000]);
        let mut cases: Vec<(usize, u8, u8)> = Vec::new();
        for &l in &lens {
            for content in 0..3u8 {
                for before in 0..3u8 {
                    cases.push((l, content, before));
                }
            }
        }
        let big = all.len() - 1; // 40000 bytes
        cases.par_iter().for_each(|&(l, content, before)| {
            run.add_evals(1);
            let m: Vec<u8> = match content {
                0 => vec![0u8; l],
                1 => (0..l).map(|i| if i % 4 == 0 { (i / 4 % 60) as u8 } else { 0 }).collect(),
                _ => vp_core::lcg_bytes(9, l),
            };
            let mut ms2 = ms.clone();
            ms2.push(m);
            let mi = ms2.len() - 1;
            let mut seq = vec![C::Tick(0, true)];
            match before {
                0 => {}
                1 => seq.push(C::Snap(0)),
                _ => seq.push(C::Snap(big)),
            }
            seq.push(C::Msg(mi));
            seq.push(C::Tick(1, false));
            seq.push(C::Msg(2));
            let class = format!("long-message:content{}:before{}", content, before);
            match vp_core::catch(|| write_read(&seq, &all, &ms2, (0, 0, 0, false))) {
                Ok(Ok(_)) => run.class(&class, || json!({"message_len": l})),
                Ok(Err(msg)) => {
                    run.violation("c15:raw:long-message", &format!("message of {} bytes (content class {}, preceded by {}): {}", l, content, ["nothing", "a small snapshot", "a 40000-byte snapshot"][before as usize], msg), json!({"message_len": l, "content": content, "before": before}));
                }
                // the raw writer panics on a message it cannot store (its documented way of refusing)
                Err(p) if p.contains("overlong message") || p.contains("too long compression") => run.class(&format!("{}:not-accepted-by-the-writer", class), || json!({"message_len": l})),
                Err(p) => {
                    run.violation(&format!("c15:raw:{}", vp_core::panic_sig(&p)), &format!("message of {} bytes: {}", l, p), json!({"message_len": l, "content": content, "before": before}));
                }
            }
        });
    }
    // header strings of every length up to the capacity
    let mut hdrs: Vec<(usize, usize, usize, bool)> = Vec::new();
    for l in 0..64 {
        hdrs.push((l, 0, 0, l % 2 == 0));
        hdrs.push((0, l, 0, l % 2 == 1));
        if l < 20 {
            hdrs.push((63 - l, 63, l, true));
        }
    }
    for h in hdrs {
        run.add_evals(1);
        let seq = vec![C::Tick(0, true), C::Msg(2)];
        match vp_core::catch(|| write_read(&seq, &pl, &ms, h)) {
            Ok(Ok(_)) => run.class("header:ok", || json!({"net_version_len": h.0, "map_name_len": h.1, "timestamp_len": h.2})),
            Ok(Err(msg)) => {
                run.violation("c15:raw:header", &format!("{:?}: {}", h, msg), json!({"header_lengths": [h.0, h.1, h.2], "sha": h.3}));
            }
            Err(p) => {
                run.violation(&format!("c15:raw:{}", vp_core::panic_sig(&p)), &p, json!({"header_lengths": [h.0, h.1, h.2], "sha": h.3}));
            }
        }
    }
    // every tick gap 1..=1100 and around every power of two, after a key frame and after a
    // plain tick, followed by a small gap (an error in one marker shifts the ticks after it)
    let mut gaps: Vec<i32> = (1..=1100).collect();
    for k in 10..=30 {
        for d in [-1i32, 0, 1, 7, 31, 32] {
            gaps.push((1i32 << k) + d);
        }
    }
    gaps.push(i32::MAX - 200);
    let cases: Vec<(i32, bool, bool)> = gaps.iter().flat_map(|&g| [(g, false, false), (g, true, false), (g, false, true)]).collect();
    cases.par_iter().for_each(|&(g, first_key, gap_key)| {
        run.add_evals(1);
        let seq = vec![C::Tick(0, first_key), C::Msg(1), C::Tick(g, gap_key), C::Msg(2), C::Tick(1, false), C::Tick(32, false), C::Msg(3)];
        match vp_core::catch(|| write_read(&seq, &pl, &ms, (1, 1, 1, false))) {
            Ok(Ok(_)) => run.class(&format!("tick-gap:{}", if g < 32 { "inline" } else if g < 256 { "32..255" } else if g < 65536 { "256..65535" } else { "65536.." }), || json!({"gap": g})),
            Ok(Err(msg)) => {
                run.violation("c15:raw:tick-gap", &format!("gap {} (key frame before: {}, at: {}): {}", g, first_key, gap_key, msg), json!({"gap": g, "chunks": format!("{:?}", seq)}));
            }
            Err(p) => {
                run.violation(&format!("c15:raw:{}", vp_core::panic_sig(&p)), &format!("gap {}: {}", g, p), json!({"gap": g, "chunks": format!("{:?}", seq)}));
            }
        }
    });
    // absolute tick numbers from one end of the range to the other (the raw writer only asks for
    // increasing ticks): every pair a < b of the listed values, each with and without key frames
    let mut marks: Vec<i32> = vec![i32::MIN, i32::MIN + 1, i32::MIN + 31, i32::MIN + 32, i32::MIN + 33, -(1 << 30), -(1 << 20), -65537, -65536, -257, -256, -255, -33, -32, -31, -2, -1, 0, 1, 31, 32, 33, 255, 256, 65535, 65536, 1 << 30, i32::MAX - 32, i32::MAX - 31, i32::MAX - 1, i32::MAX];
    marks.sort_unstable();
    let mut abs_cases: Vec<(i32, i32, bool, bool)> = Vec::new();
    for (i, &a) in marks.iter().enumerate() {
        for &b in &marks[i + 1..] {
            for k in 0..4 {
                abs_cases.push((a, b, k & 1 == 1, k & 2 == 2));
            }
        }
    }
    abs_cases.par_iter().for_each(|&(a, b, ka, kb)| {
        run.add_evals(1);
        let mut seq = vec![C::TickAbs(a, ka), C::Msg(1), C::TickAbs(b, kb), C::Msg(2)];
        if b < i32::MAX - 40 {
            seq.extend([C::Tick(1, false), C::Tick(32, false), C::Msg(3)]);
        }
        let gap = b as i64 - a as i64;
        match vp_core::catch(|| write_read(&seq, &pl, &ms, (1, 1, 1, false))) {
            Ok(Ok(_)) => run.class(&format!("absolute-ticks:{}:{}", if a < 0 { "from-negative" } else { "from-non-negative" }, if gap < 32 { "gap-inline" } else if gap <= i32::MAX as i64 { "gap-fits-i32" } else { "gap-beyond-i32" }), || json!({"ticks": [a, b]})),
            Ok(Err(msg)) => {
                run.violation("c15:raw:absolute-ticks", &format!("ticks {} -> {} (key frames {}, {}): {}", a, b, ka, kb, msg), json!({"ticks": [a, b], "chunks": format!("{:?}", seq)}));
            }
            Err(p) => {
                run.violation(&format!("c15:raw:{}", vp_core::panic_sig(&p)), &format!("ticks {} -> {}: {}", a, b, p), json!({"ticks": [a, b], "chunks": format!("{:?}", seq)}));
            }
        }
    });
}

// ---------------------------------------------------------------------------
// typed level
// ---------------------------------------------------------------------------

fn object_sets() -> Vec<Vec<(SnapObj, u16)>> {
    let flag = |x| SnapObj::Flag(snap_obj::Flag { x, y: 7, team: 1 });
    vec![
        vec![],
        vec![(flag(10), 1)],
        vec![(flag(11), 1), (SnapObj::MyOwnObject(snap_obj::MyOwnObject { test: 5 }), 2)],
        vec![(SnapObj::DdnetPlayer(snap_obj::DdnetPlayer { flags: 1, auth_level: 2 }), 2), (SnapObj::Pickup(snap_obj::Pickup { x: 1, y: 2, type_: 0, subtype: 0 }), 3)],
        vec![(flag(11), 1), (SnapObj::MyOwnObject(snap_obj::MyOwnObject { test: 6 }), 2), (SnapObj::SpectatorCount(snap_obj::SpectatorCount { num_spectators: 3 }), 4)],
    ]
}

fn obj_key(o: &(SnapObj, u16)) -> (String, u16, Vec<i32>) {
    (format!("{:?}", o.0.obj_type_id()), o.1, o.0.encode().to_vec())
}

#[derive(Clone, Debug)]
enum T {
    /// world index, tick step
    Snap(usize, i32),
    /// a tick number that does not increase (0 = equal, negative = lower); must be refused
    BadTick(i32),
    /// a call the writer may refuse for another reason: 0 = the same (object, id) twice,
    /// 1 = more objects than a snapshot holds, 2 = a snapshot whose byte form is longer than
    /// 64 KiB (750 objects of 17 five-byte values). Whatever it answers, what it accepts
    /// afterwards must be played back exactly
    Awkward(u8),
    /// `DemoWriter::write_msg` with game message number i of `messages()`
    Msg(usize),
}

/// Game messages for `DemoWriter::write_msg`: (encoded form as the reader must decode it, closure
/// index). Built on demand because they borrow.
fn with_message<R>(i: usize, f: impl FnOnce(&libtw2_gamenet_ddnet::msg::Game) -> R) -> R {
    use libtw2_gamenet_ddnet::msg::game::*;
    use libtw2_gamenet_ddnet::msg::Game;
    let long = vec![b'a'; 70000];
    let mid = vec![b'b'; 300];
    match i {
        0 => f(&Game::SvReadyToEnter(SvReadyToEnter)),
        1 => f(&Game::SvChat(SvChat { team: 0, client_id: 5, message: b"hello" })),
        2 => f(&Game::SvChat(SvChat { team: 1, client_id: -1, message: b"" })),
        3 => f(&Game::SvChat(SvChat { team: 0, client_id: 7, message: &mid })),
        4 => f(&Game::SvBroadcast(SvBroadcast { message: b"abc" })),
        // does not fit the writer's 64 KiB buffer: must be refused, and the recording stays usable
        _ => f(&Game::SvChat(SvChat { team: 0, client_id: 5, message: &long })),
    }
}
const NUM_MESSAGES: usize = 6;

fn encode_message(m: &libtw2_gamenet_ddnet::msg::Game) -> Option<Vec<u8>> {
    let mut buf: Vec<u8> = Vec::with_capacity(80000);
    libtw2_packer::with_packer(&mut buf, |p| m.encode(p).map(|b| b.len())).ok()?;
    Some(buf)
}

fn typed(hist: &[T]) -> Result<String, String> {
    let sets = object_sets();
    let mut file = Cursor::new(Vec::new());
    let mut expected: Vec<(i32, Vec<(String, u16, Vec<i32>)>)> = Vec::new();
    // messages in the order written, with the number of snapshots written before each
    let mut expected_msgs: Vec<(usize, Vec<u8>)> = Vec::new();
    let mut refused = 0;
    let mut awkward = String::new();
    {
        let mut w: DemoWriter<Protocol> = DemoWriter::new(&mut file, b"0.6 626fce9a778df4d4", b"dm1", None, 0, DemoKind::Server, 0, b"2024-01-01", &[]).map_err(|e| format!("DemoWriter::new: {:?}", e))?;
        let mut tick = 0;
        for h in hist {
            match h {
                T::Snap(wi, step) => {
                    tick += step;
                    w.write_snap(tick, sets[*wi].iter().map(|(o, id)| (o, *id))).map_err(|e| format!("write_snap(tick {}) refused: {:?}", tick, e))?;
                    let mut e: Vec<_> = sets[*wi].iter().map(obj_key).collect();
                    e.sort();
                    expected.push((tick, e));
                }
                T::BadTick(off) => {
                    if expected.is_empty() {
                        continue;
                    }
                    let bad = tick + off;
                    match w.write_snap(bad, sets[1].iter().map(|(o, id)| (o, *id))) {
                        Err(_) => refused += 1,
                        Ok(()) => return Err(format!("write_snap accepted tick {} after tick {}", bad, tick)),
                    }
                }
                T::Awkward(kind) => {
                    let t = tick + 1;
                    let ci = |v: i32| SnapObj::ClientInfo(snap_obj::ClientInfo { name: [v; 4], clan: [v; 3], country: v, skin: [v; 6], use_custom_color: 1, color_body: v, color_feet: v });
                    let set: Vec<(SnapObj, u16)> = match kind {
                        0 => vec![sets[1][0].clone(), sets[4][2].clone(), sets[1][0].clone()],
                        1 => (0..1030u16).map(|i| (SnapObj::SpectatorCount(snap_obj::SpectatorCount { num_spectators: 1 }), i)).collect(),
                        _ => (0..800u16).map(|i| (ci(i32::MIN), i)).collect(),
                    };
                    // (a panic of the raw writer about a payload it cannot store is outside what the
                    // property promises; the history ends there without a verdict)
                    match vp_core::catch(|| w.write_snap(t, set.iter().map(|(o, id)| (o, *id)))) {
                        Ok(Ok(())) => {
                            if *kind == 0 {
                                return Err("write_snap accepted the same (object, id) twice".into());
                            }
                            tick = t;
                            let mut e: Vec<_> = set.iter().map(obj_key).collect();
                            e.sort();
                            expected.push((tick, e));
                            awkward.push_str(&format!(":awkward{}-accepted", kind));
                        }
                        Ok(Err(_)) => awkward.push_str(&format!(":awkward{}-refused", kind)),
                        Err(p) => return Ok(format!("typed:awkward{}-panicked:{}", kind, vp_core::panic_sig(&p))),
                    }
                }
                T::Msg(i) => {
                    let r = with_message(*i, |m| (w.write_msg(m).is_ok(), encode_message(m)));
                    match r {
                        (true, Some(enc)) => expected_msgs.push((expected.len(), enc)),
                        (true, None) => return Err("write_msg accepted a message that cannot be encoded".into()),
                        (false, _) if *i + 1 < NUM_MESSAGES => return Err(format!("write_msg refused message {}", i)),
                        (false, _) => awkward.push_str(":long-message-refused"),
                    }
                }
            }
        }
    }
    let bytes = file.into_inner();
    let mut warn: Vec<String> = Vec::new();
    struct W<'a>(&'a mut Vec<String>);
    impl<'a> libtw2_warn::Warn<libtw2_demo::ddnet::Warning> for W<'a> {
        fn warn(&mut self, w: libtw2_demo::ddnet::Warning) {
            self.0.push(format!("{:?}", w));
        }
    }
    let mut r: DemoReader<Protocol> = DemoReader::new(Cursor::new(&bytes[..]), &mut W(&mut warn)).map_err(|e| format!("DemoReader::new: {:?}", e))?;
    let mut got: Vec<(i32, Vec<(String, u16, Vec<i32>)>)> = Vec::new();
    let mut got_msgs: Vec<(usize, Vec<u8>)> = Vec::new();
    let mut cur_tick = None;
    loop {
        match r.next_chunk(&mut W(&mut warn)).map_err(|e| format!("next_chunk: {:?}", e))? {
            None => break,
            Some(Chunk::Tick(t)) => cur_tick = Some(t),
            Some(Chunk::Snapshot(it)) => {
                let mut e: Vec<_> = it.map(obj_key).collect();
                e.sort();
                got.push((cur_tick.ok_or("snapshot before any tick")?, e));
            }
            Some(Chunk::Message(m)) => got_msgs.push((got.len(), encode_message(&m).ok_or("the message read back cannot be encoded")?)),
            Some(Chunk::Invalid) => return Err("invalid chunk".into()),
        }
    }
    if !warn.is_empty() {
        return Err(format!("warnings {:?}", warn));
    }
    if got != expected {
        let first = got.iter().zip(&expected).position(|(a, b)| a != b).unwrap_or(got.len().min(expected.len()));
        return Err(format!("object sets differ at snapshot {} of {}: read {:?}, written {:?}", first, expected.len(), got.get(first), expected.get(first)));
    }
    if got_msgs != expected_msgs {
        let first = got_msgs.iter().zip(&expected_msgs).position(|(a, b)| a != b).unwrap_or(got_msgs.len().min(expected_msgs.len()));
        return Err(format!("messages differ at message {} of {}: read {:?}, written {:?}", first, expected_msgs.len(), got_msgs.get(first).map(|m| (m.0, m.1.len(), &m.1[..m.1.len().min(12)])), expected_msgs.get(first).map(|m| (m.0, m.1.len(), &m.1[..m.1.len().min(12)]))));
    }
    // (the class records which kinds of refusal occurred, not their order)
    let mut kinds: Vec<&str> = awkward.split(':').filter(|k| !k.is_empty()).collect();
    kinds.sort();
    kinds.dedup();
    Ok(format!("typed:snaps{}:refused{}:msgs{}:{}", expected.len().min(3), refused.min(2), expected_msgs.len().min(2), kinds.join("+")))
}

fn typed_level(run: &Arc<Run>, depth: usize, extended: bool) {
    let nsets = object_sets().len();
    let mut alpha: Vec<T> = Vec::new();
    for wi in 0..nsets {
        for step in [1, 250, 251] {
            alpha.push(T::Snap(wi, step));
        }
    }
    alpha.push(T::BadTick(0));
    alpha.push(T::BadTick(-1));
    alpha.push(T::BadTick(-1000));
    if extended {
        for k in 0..3 {
            alpha.push(T::Awkward(k));
        }
        for i in 0..NUM_MESSAGES {
            alpha.push(T::Msg(i));
        }
    }

    let n = alpha.len();
    let total: usize = (1..=depth).map(|d| n.pow(d as u32)).sum();
    let lc = (0..total)
        .into_par_iter()
        .fold(LocalClasses::new, |mut lc, idx| {
            let mut i = idx;
            let mut d = 1;
            while i >= n.pow(d as u32) {
                i -= n.pow(d as u32);
                d += 1;
            }
            let mut hist = Vec::new();
            for _ in 0..d {
                hist.push(alpha[i % n].clone());
                i /= n;
            }
            lc.eval();
            match vp_core::catch(|| typed(&hist)) {
                Ok(Ok(c)) => lc.class(&c, || json!(format!("{:?}", hist))),
                Ok(Err(msg)) => {
                    run.violation(&format!("c15:typed:{}", msg.split(|c: char| c.is_ascii_digit() || c == '(').next().unwrap_or("")), &msg, json!({"history": format!("{:?}", hist), "object_sets": "see c15.rs object_sets()"}));
                }
                Err(p) => {
                    run.violation(&format!("c15:typed:{}", vp_core::panic_sig(&p)), &p, json!({"history": format!("{:?}", hist)}));
                }
            }
            lc
        })
        .reduce(LocalClasses::new, |a, b| a.merge(b));
    run.merge_classes(lc);
}

fn main() {
    let run = Run::new("C15", "exploration");
    let thorough = run.tier == Tier::Thorough;
    raw_level(&run, if thorough { 5 } else { 4 });
    typed_level(&run, if thorough { 6 } else { 5 }, false);
    // with calls the writer may refuse for other reasons and game messages (27 symbols): one step less
    typed_level(&run, if thorough { 5 } else { 4 }, true);
    run.assume("raw writer: tick numbers strictly increase (its documented precondition); payloads whose compressed form does not fit a 16-bit size are not 'accepted by the writer' and are not generated");
    run.finish(
        "raw level: all chunk sequences up to the depth over {tick +1/+31/+32/+33, key-frame ticks, snapshot / delta payloads with compressed sizes on both sides of 29/30 and 255/256, messages of length 0,1,3,4,5,64,100}, long messages (1 KiB .. 64 KiB around every power of two, three contents, alone / after a small / after a large snapshot), every payload size incl. the largest representable, header strings of every length, every tick gap 1..1100 and around every power of two up to 2^30, every pair of absolute tick numbers out of 31 values from i32::MIN to i32::MAX (negative ticks, gaps wider than i32::MAX); typed level: all world histories up to the depth over 5 object sets (ordinal objects, UUID-typed objects of sizes 1 and 2) x tick steps {+1,+250,+251} x non-increasing ticks (must be refused, recording stays usable), and one step shorter with calls the writer may refuse for another reason (the same object twice, 1030 objects, a snapshot whose byte form exceeds 64 KiB, a 70000-byte chat message) and game messages through DemoWriter::write_msg - whatever is accepted after a refusal must be played back exactly; written with the real writers into memory, read back with the real readers, compared chunk by chunk, zero warnings",
        true,
    );
}
