//! Shared helpers for the snapshot checks (C09-C13).

use libtw2_snapshot::format::Warning;
use libtw2_snapshot::snap::Delta;
use libtw2_snapshot::snap::RawBuilder;
use libtw2_snapshot::snap::RawSnap;
use libtw2_snapshot::Snap;

pub type RawItems = Vec<(u16, u16, Vec<i32>)>;

pub fn raw_items(s: &RawSnap) -> RawItems {
    let mut v: RawItems = s.items().map(|i| (i.raw_type_id, i.id, i.data.to_vec())).collect();
    v.sort();
    v
}

pub fn build_raw(items: &[(u16, u16, Vec<i32>)]) -> RawSnap {
    let mut b = RawBuilder::new();
    for (t, id, d) in items {
        b.add_item(*t, *id, d).expect("universe snapshot fits");
    }
    b.finish()
}

/// Pre-agreed sizes: type 1 has two words; everything else is explicit.
pub fn obj_size(t: u16) -> Option<u32> {
    if t == 1 {
        Some(2)
    } else {
        None
    }
}

pub fn warn_vec() -> Vec<Warning> {
    Vec::new()
}

pub fn snap_items(s: &Snap) -> Vec<(String, u16, Vec<i32>)> {
    let mut v: Vec<(String, u16, Vec<i32>)> = s.items().map(|i| (format!("{:?}", i.type_id), i.id, i.data.to_vec())).collect();
    v.sort();
    v
}

pub fn write_delta_bytes(d: &Delta) -> Vec<u8> {
    let mut buf: Vec<u8> = Vec::with_capacity(1 << 18);
    libtw2_packer::with_packer(&mut buf, |p| d.write(obj_size, p).map(|b| b.len())).expect("delta fits");
    buf
}
