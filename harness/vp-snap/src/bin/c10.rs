//! C10: a snapshot survives serialization, including UUID-typed items.
//! All builder scripts up to a depth over a small alphabet; comparison through
//! the public API only.

use libtw2_gamenet_common::snap_obj::TypeId;
use libtw2_packer::with_packer;
use libtw2_snapshot::format::Warning;
use libtw2_snapshot::snap::Builder;
use libtw2_snapshot::snap::Delta;
use libtw2_snapshot::snap::RawSnap;
use libtw2_snapshot::Snap;
use std::sync::Arc;
use uuid::Uuid;
use vp_core::rayon::prelude::*;
use vp_core::serde_json::json;
use vp_core::LocalClasses;
use vp_core::Run;

fn uuids() -> [Uuid; 4] {
    [
        Uuid::from_bytes([0x1a, 0x3f, 0xcc, 0x94, 0x1e, 0x53, 0x46, 0x1e, 0x91, 0x2e, 0x21, 0x20, 0x08, 0x82, 0x02, 0x4b]),
        Uuid::from_bytes([0xff; 16]),
        Uuid::from_bytes([0x80, 0, 0, 0, 0, 0, 0, 1, 0x7f, 0xff, 0xff, 0xff, 0, 0, 0, 0]),
        Uuid::from_bytes([0x00, 0x11, 0x22, 0x33, 0x44, 0x55, 0x66, 0x77, 0x88, 0x99, 0xaa, 0xbb, 0xcc, 0xdd, 0xee, 0xfe]),
    ]
}

fn types() -> Vec<TypeId> {
    let u = uuids();
    vec![TypeId::Ordinal(1), TypeId::Ordinal(2), TypeId::Uuid(u[0]), TypeId::Uuid(u[1]), TypeId::Uuid(u[2])]
}

const IDS: [u16; 3] = [0, 1, 65535];

fn datas() -> Vec<Vec<i32>> {
    vec![vec![], vec![7], vec![1, 2, 3]]
}

type Op = (usize, usize, usize);

fn ops() -> Vec<Op> {
    let mut v = Vec::new();
    for t in 0..5 {
        for i in 0..3 {
            for d in 0..3 {
                v.push((t, i, d));
            }
        }
    }
    v
}

/// What the builder starts from before the script runs: nothing, one large item
/// leaving `room` bytes below the 64 KiB limit, or `items` small items (item-count limit).
#[derive(Clone, Copy, Debug, PartialEq)]
enum Prefill {
    None,
    Room(usize),
    Items(usize),
}

const FILL_TYPE: TypeId = TypeId::Ordinal(3);

fn prefill(b: &mut Builder, pf: Prefill, model: &mut Model) -> Result<(), String> {
    match pf {
        Prefill::None => {}
        Prefill::Room(room) => {
            // serialized size = 8 (header) + 4 (offset) + 4 (key) + 4 * words
            let words = (65536 - 16 - room) / 4;
            let data: Vec<i32> = (0..words as i32).map(|x| x.wrapping_mul(7)).collect();
            b.add_item(FILL_TYPE, 7, &data).map_err(|e| format!("prefill refused: {:?}", e))?;
            model.insert((format!("{:?}", FILL_TYPE), 7), (FILL_TYPE, data));
        }
        Prefill::Items(n) => {
            for i in 0..n {
                b.add_item(FILL_TYPE, 100 + i as u16, &[]).map_err(|e| format!("prefill refused: {:?}", e))?;
                model.insert((format!("{:?}", FILL_TYPE), 100 + i as u16), (FILL_TYPE, vec![]));
            }
        }
    }
    Ok(())
}

type Model = std::collections::BTreeMap<(String, u16), (TypeId, Vec<i32>)>;

/// Runs the script on a real builder and on the reference model (a plain map). A refused
/// `add_item` leaves the model unchanged and the builder stays in use: the statement is
/// about every snapshot the builder hands out, also after it has refused something.
fn build(pf: Prefill, script: &[Op]) -> Result<(Snap, Model, usize), String> {
    let ty = types();
    let da = datas();
    let mut b = Builder::new();
    let mut model = Model::new();
    prefill(&mut b, pf, &mut model)?;
    let mut refused = 0;
    for &(t, i, d) in script {
        let key = (format!("{:?}", ty[t]), IDS[i]);
        match b.add_item(ty[t], IDS[i], &da[d]) {
            Ok(()) => {
                if model.insert(key, (ty[t], da[d].clone())).is_some() {
                    return Err("builder accepted a second item with the same type and id".into());
                }
            }
            Err(_) => refused += 1,
        }
    }
    Ok((b.finish(), model, refused))
}

/// Everything observable through the public API.
#[derive(Debug, PartialEq)]
struct Observed {
    items: Vec<(String, u16, Vec<i32>)>,
    lookups: Vec<Option<Vec<i32>>>,
    crc: i32,
    len: usize,
}

fn observe(s: &Snap) -> Observed {
    let mut items: Vec<(String, u16, Vec<i32>)> = s.items().map(|i| (format!("{:?}", i.type_id), i.id, i.data.to_vec())).collect();
    items.sort();
    let mut lookups = Vec::new();
    let mut all_types = types();
    all_types.push(TypeId::Uuid(uuids()[3]));
    for t in all_types {
        for id in IDS {
            lookups.push(s.item(t, id).map(|d| d.to_vec()));
        }
    }
    Observed { items, lookups, crc: s.crc(), len: s.items().len() }
}

fn expected(map: &Model) -> Observed {
    let mut items: Vec<(String, u16, Vec<i32>)> = map.iter().map(|(k, v)| (k.0.clone(), k.1, v.1.clone())).collect();
    items.sort();
    let mut lookups = Vec::new();
    let mut all_types = types();
    all_types.push(TypeId::Uuid(uuids()[3]));
    for t in all_types {
        for id in IDS {
            lookups.push(map.get(&(format!("{:?}", t), id)).map(|v| v.1.clone()));
        }
    }
    Observed { items, lookups, crc: 0, len: map.len() }
}

fn raw_registry(ints: &[i32]) -> Result<Vec<(u16, Vec<i32>)>, String> {
    let mut r = RawSnap::empty();
    let mut w: Vec<Warning> = Vec::new();
    r.read_from_ints(&mut w, ints).map_err(|e| format!("{:?}", e))?;
    Ok(r.items().filter(|i| i.raw_type_id == 0).map(|i| (i.id, i.data.to_vec())).collect())
}

fn check(pf: Prefill, script: &[Op]) -> Result<String, String> {
    let (s, model, refused) = build(pf, script)?;
    let orig = observe(&s);
    // the builder itself against the reference model (without the checksum)
    let exp = expected(&model);
    if orig.items != exp.items || orig.lookups != exp.lookups || orig.len != exp.len {
        return Err(format!("built snapshot differs from the model: {:?} vs {:?}", orig, exp));
    }
    let mut tmp = Vec::new();
    // bytes
    let cap = if pf == Prefill::None { 1024 } else { 17000 };
    let mut bytes: Vec<u8> = Vec::with_capacity(5 * cap);
    with_packer(&mut bytes, |p| s.write(&mut tmp, p).map(|b| b.len())).map_err(|_| "write: capacity".to_string())?;
    let mut w: Vec<Warning> = Vec::new();
    let mut from_bytes = Snap::empty();
    let mut ibuf = Vec::new();
    from_bytes.read(&mut w, &mut ibuf, &bytes).map_err(|e| format!("reading the written bytes fails: {:?}", e))?;
    if !w.is_empty() {
        return Err(format!("warnings reading the written bytes: {:?}", w));
    }
    let ob = observe(&from_bytes);
    if ob != orig {
        return Err(format!("copy read from bytes differs: {:?} vs original {:?}", ob, orig));
    }
    // ints
    let mut ints = vec![0i32; cap];
    let n = s.write_to_ints(&mut tmp, &mut ints).map_err(|_| "write_to_ints: capacity".to_string())?.len();
    let mut from_ints = Snap::empty();
    from_ints.read_from_ints(&mut w, &ints[..n]).map_err(|e| format!("reading the written ints fails: {:?}", e))?;
    if !w.is_empty() {
        return Err(format!("warnings reading the written ints: {:?}", w));
    }
    let oi = observe(&from_ints);
    if oi != orig {
        return Err(format!("copy read from ints differs: {:?} vs original {:?}", oi, orig));
    }
    // the receiving snapshot object is reused: reading must replace whatever it held before
    // (the same snapshot, i.e. every key collides; another one with colliding and foreign keys)
    for (what, mut target) in [("the same snapshot", from_bytes.clone()), ("another snapshot", build(Prefill::None, &[(0, 0, 1), (2, 1, 2), (1, 2, 0)])?.0)] {
        let mut t2 = target.clone();
        target.read_from_ints(&mut w, &ints[..n]).map_err(|e| format!("reading the written ints into an object holding {} fails: {:?}", what, e))?;
        let o = observe(&target);
        if o != orig {
            return Err(format!("copy read from ints into an object holding {} differs: {:?} vs original {:?}", what, o, orig));
        }
        t2.read(&mut w, &mut ibuf, &bytes).map_err(|e| format!("reading the written bytes into an object holding {} fails: {:?}", what, e))?;
        let o = observe(&t2);
        if o != orig {
            return Err(format!("copy read from bytes into an object holding {} differs: {:?} vs original {:?}", what, o, orig));
        }
        if !w.is_empty() {
            return Err(format!("warnings reading into a reused object: {:?}", w));
        }
    }
    // copies obtained by applying a delta (from the empty snapshot and from the prefix)
    for (name, base_script) in [("empty", &script[..0]), ("prefix", &script[..script.len().saturating_sub(1)])] {
        let base = build(pf, base_script)?.0;
        // read the base from the wire too, as a client would hold it
        let mut bi = vec![0i32; cap];
        let bn = base.write_to_ints(&mut tmp, &mut bi).map_err(|_| "capacity".to_string())?.len();
        let mut base_rx = Snap::empty();
        base_rx.read_from_ints(&mut w, &bi[..bn]).map_err(|e| format!("{:?}", e))?;
        let mut d = Delta::new();
        match vp_core::catch(|| d.create(&base, &s)) {
            Ok(()) => {}
            Err(_) => continue, // size change of an item: Delta::create's documented precondition (C09 finding)
        }
        // the target of the delta application is a reused object too
        let mut c = if name == "prefix" { from_ints.clone() } else { Snap::empty() };
        c.read_with_delta(&mut w, &base_rx, &d).map_err(|e| format!("applying delta from {} fails: {:?}", name, e))?;
        if !w.is_empty() {
            return Err(format!("warnings applying delta from {}: {:?}", name, w));
        }
        let oc = observe(&c);
        if oc != orig {
            return Err(format!("copy obtained by delta from {} differs: {:?} vs original {:?}", name, oc, orig));
        }
    }
    if pf != Prefill::None {
        // at the limits the recycled builder has no room for the probe items
        return Ok(format!("ok:{}:refused{}:items{}", match pf { Prefill::Room(_) => "near-size-limit", _ => "near-item-limit" }, refused.min(3), (orig.len - model.len().min(orig.len)) + script.len() - refused));
    }
    // recycle the received copy: known UUID types keep their number, a new one gets a fresh number
    let reg_before = raw_registry(&ints[..n])?;
    let u = uuids();
    let mut b = from_ints.recycle();
    let mut expect_known: Vec<(u16, Vec<i32>)> = Vec::new();
    for (k, uu) in u.iter().enumerate().take(3) {
        let data = libtw2_snapshot::format::uuid_to_item_data(*uu).to_vec();
        if let Some((num, _)) = reg_before.iter().find(|(_, d)| *d == data) {
            expect_known.push((*num, data));
            b.add_item(TypeId::Uuid(*uu), 9, &[k as i32]).map_err(|e| format!("add to recycled builder: {:?}", e))?;
        }
    }
    b.add_item(TypeId::Uuid(u[3]), 9, &[33]).map_err(|e| format!("add new uuid to recycled builder: {:?}", e))?;
    let s2 = b.finish();
    let mut ints2 = vec![0i32; cap];
    let n2 = s2.write_to_ints(&mut tmp, &mut ints2).map_err(|_| "capacity".to_string())?.len();
    let reg_after = raw_registry(&ints2[..n2])?;
    for (num, data) in &expect_known {
        if !reg_after.iter().any(|(n, d)| n == num && d == data) {
            return Err(format!("recycled builder forgot the type number {} of a known UUID type: registry before {:?}, after {:?}", num, reg_before, reg_after));
        }
    }
    let new_data = libtw2_snapshot::format::uuid_to_item_data(u[3]).to_vec();
    let new_num = reg_after.iter().find(|(_, d)| *d == new_data).map(|x| x.0).ok_or("new UUID type not registered")?;
    if reg_before.iter().any(|(n, _)| *n == new_num) {
        return Err(format!("recycled builder reuses type number {} for a new UUID type: registry before {:?}, after {:?}", new_num, reg_before, reg_after));
    }
    let mut nums: Vec<u16> = reg_after.iter().map(|x| x.0).collect();
    nums.sort();
    nums.dedup();
    if nums.len() != reg_after.len() {
        return Err(format!("duplicate type numbers after recycling: {:?}", reg_after));
    }
    // generations: the known UUID types lie dormant for one generation (a snapshot built from
    // the recycled builder without any item of theirs, sent over the wire), and are used again
    // in the next one - which must still round-trip and answer lookups
    {
        let mut w: Vec<Warning> = Vec::new();
        let mut dormant_b = s2.recycle();
        dormant_b.add_item(TypeId::Ordinal(1), 77, &[1]).map_err(|e| format!("dormant generation: {:?}", e))?;
        let dormant = dormant_b.finish();
        let mut di = vec![0i32; cap];
        let dn = dormant.write_to_ints(&mut tmp, &mut di).map_err(|_| "capacity".to_string())?.len();
        let mut dormant_rx = Snap::empty();
        dormant_rx.read_from_ints(&mut w, &di[..dn]).map_err(|e| format!("reading the dormant generation fails: {:?}", e))?;
        if observe(&dormant_rx) != observe(&dormant) {
            return Err("dormant generation: copy differs from the original".into());
        }
        for (which, gen) in [("sender-side", dormant), ("received", dormant_rx)] {
            let mut b3 = gen.recycle();
            let mut expect: Vec<(TypeId, u16, Vec<i32>)> = Vec::new();
            for (k, uu) in u.iter().enumerate() {
                b3.add_item(TypeId::Uuid(*uu), 3, &[k as i32, 5]).map_err(|e| format!("third generation ({}) refuses a UUID type: {:?}", which, e))?;
                expect.push((TypeId::Uuid(*uu), 3, vec![k as i32, 5]));
            }
            let s3 = b3.finish();
            let mut i3 = vec![0i32; cap];
            let n3 = s3.write_to_ints(&mut tmp, &mut i3).map_err(|_| "capacity".to_string())?.len();
            let mut rx3 = Snap::empty();
            rx3.read_from_ints(&mut w, &i3[..n3]).map_err(|e| format!("third generation ({}): reading the written snapshot fails: {:?}", which, e))?;
            if vp_snap::snap_items(&rx3) != vp_snap::snap_items(&s3) || rx3.crc() != s3.crc() {
                return Err(format!("third generation ({}): copy differs from the original", which));
            }
            for (t, id, d) in &expect {
                if rx3.item(*t, *id) != Some(&d[..]) || s3.item(*t, *id) != Some(&d[..]) {
                    return Err(format!("third generation ({}): lookup of {:?} fails", which, t));
                }
            }
            let reg3 = raw_registry(&i3[..n3])?;
            for (num, data) in &expect_known {
                if !reg3.iter().any(|(n, d)| n == num && d == data) {
                    return Err(format!("third generation ({}): UUID type number {} changed or was lost: {:?}", which, num, reg3));
                }
            }
        }
        if !w.is_empty() {
            return Err(format!("warnings in later generations: {:?}", w));
        }
    }
    let nuuid = reg_before.len();
    Ok(format!("ok:items{}:uuid-types{}:refused{}", orig.len.min(4), nuuid, refused.min(2)))
}

fn limits(run: &Arc<Run>) {
    // 1023 / 1024 / 1025 items; sizes at the 64 KiB limit
    let u = uuids();
    for n in [1019usize, 1020, 1021, 1022, 1023, 1024, 1025] {
        run.add_evals(1);
        let r = vp_core::catch(|| -> Result<String, String> {
            let mut b = Builder::new();
            let mut accepted = 0;
            for i in 0..n {
                let t = if i % 5 == 4 { TypeId::Uuid(u[i % 3]) } else { TypeId::Ordinal(1 + (i % 3) as u16) };
                match b.add_item(t, i as u16, &[i as i32]) {
                    Ok(()) => accepted += 1,
                    Err(_) => {}
                }
            }
            let s = b.finish();
            let raw_count = s.items().len();
            if raw_count != accepted {
                return Err(format!("{} items accepted but {} enumerated", accepted, raw_count));
            }
            let mut tmp = Vec::new();
            let mut ints = vec![0i32; 17000];
            let k = s.write_to_ints(&mut tmp, &mut ints).map_err(|_| "capacity".to_string())?.len();
            let mut back = Snap::empty();
            let mut w: Vec<Warning> = Vec::new();
            back.read_from_ints(&mut w, &ints[..k]).map_err(|e| format!("re-read fails: {:?}", e))?;
            if vp_snap::snap_items(&back) != vp_snap::snap_items(&s) || back.crc() != s.crc() || !w.is_empty() {
                return Err("copy differs".into());
            }
            // the byte form too (its header, offsets and keys run through the variable-length
            // integer code with values of every size)
            let mut bytes: Vec<u8> = Vec::with_capacity(5 * 17000);
            with_packer(&mut bytes, |p| s.write(&mut tmp, p).map(|b| b.len())).map_err(|_| "write: capacity".to_string())?;
            let mut back_b = Snap::empty();
            let mut ib = Vec::new();
            back_b.read(&mut w, &mut ib, &bytes).map_err(|e| format!("re-read of the byte form fails: {:?}", e))?;
            if vp_snap::snap_items(&back_b) != vp_snap::snap_items(&s) || back_b.crc() != s.crc() || !w.is_empty() {
                return Err("copy read from bytes differs".into());
            }
            for i in 0..n {
                let t = if i % 5 == 4 { TypeId::Uuid(u[i % 3]) } else { TypeId::Ordinal(1 + (i % 3) as u16) };
                if back.item(t, i as u16).map(|d| d.to_vec()) != s.item(t, i as u16).map(|d| d.to_vec()) {
                    return Err(format!("lookup of item {} differs in the copy", i));
                }
            }
            Ok(format!("limit:items-requested{}:accepted{}", n, accepted))
        });
        match r {
            Ok(Ok(c)) => run.class(&c, || json!({"n": n})),
            Ok(Err(d)) => {
                run.violation(&format!("c10:limit:{}", d.split(':').next().unwrap_or("")), &format!("n={}: {}", n, d), json!({"family": "item count", "n": n}));
            }
            Err(p) => {
                run.violation(&format!("c10:{}", vp_core::panic_sig(&p)), &p, json!({"family": "item count", "n": n}));
            }
        }
    }
    // ids, data words, item counts and sizes on both sides of every length boundary of the
    // variable-length integer code (6, 13, 20, 27 bits), through both wire forms
    {
        let mut words: Vec<i32> = vec![0, 1, -1, i32::MIN, i32::MAX];
        for k in [6u32, 13, 20, 27] {
            for d in [-1i32, 0, 1] {
                words.push((1i32 << k) + d);
                words.push(-(1i32 << k) + d);
            }
        }
        let ids: Vec<u16> = vec![0, 62, 63, 64, 65, 8190, 8191, 8192, 8193, 16383, 16384, 65535];
        // (item size in words, number of items): data_size = n * (4 + 4 * size) hits 8192 and its
        // neighbours; offsets pass 8192 as well
        let shapes: Vec<(usize, usize)> = vec![(1, 1023), (1, 1024), (3, 512), (3, 513), (7, 256), (2047, 1), (2046, 1), (2048, 1)];
        let mut cases: Vec<(String, Vec<(TypeId, u16, Vec<i32>)>)> = Vec::new();
        cases.push(("words".into(), words.iter().enumerate().map(|(i, w)| (TypeId::Ordinal(1 + (i % 3) as u16), i as u16, vec![*w, 7, w.wrapping_neg()])).collect()));
        cases.push(("ids".into(), ids.iter().flat_map(|&id| [(TypeId::Ordinal(5), id, vec![id as i32]), (TypeId::Uuid(uuids()[0]), id, vec![1, 2])]).collect()));
        for (size, n) in shapes {
            cases.push((format!("shape-{}x{}", n, size), (0..n).map(|i| (TypeId::Ordinal(2), i as u16, (0..size).map(|w| (i * 31 + w) as i32).collect())).collect()));
        }
        // snapshots at the size limit filled with values of each encoded length: the byte form
        // of the same snapshot is between a quarter and five quarters of its int form
        for size in [14usize, 15, 63, 1000, 4095, 16380] {
            // as many items of that size as fit (8 bytes of header, 8 + 4*size per item, 65536 in
            // all, at most 1024 items), then one more that takes up what is left
            let n = ((65536 - 8) / (8 + 4 * size)).min(1024);
            let left = 65536 - 8 - n * (8 + 4 * size);
            let filler: Option<usize> = if n < 1024 && left >= 8 { Some((left - 8) / 4) } else { None };
            for (fname, fill) in [("1-byte", 5i32), ("2-byte", 8191), ("3-byte", -(1 << 20)), ("4-byte", (1 << 27) - 1), ("5-byte-min", i32::MIN), ("5-byte-max", i32::MAX), ("5-byte", 1 << 27)] {
                let mut items: Vec<(TypeId, u16, Vec<i32>)> = (0..n).map(|i| (TypeId::Ordinal(2), i as u16, (0..size).map(|w| if (i + w) % 7 == 6 { fill.wrapping_sub(1) } else { fill }).collect())).collect();
                if let Some(f) = filler {
                    items.push((TypeId::Ordinal(3), 0, vec![fill; f]));
                }
                cases.push((format!("full-{}x{}-{}", n, size, fname), items));
            }
        }
        for (name, items) in cases {
            run.add_evals(1);
            let r = vp_core::catch(|| -> Result<(), String> {
                let mut b = Builder::new();
                for (t, id, d) in &items {
                    b.add_item(*t, *id, d).map_err(|e| format!("refused: {:?}", e))?;
                }
                let s = b.finish();
                let mut tmp = Vec::new();
                let mut w: Vec<Warning> = Vec::new();
                let mut ints = vec![0i32; 17000];
                let len = s.write_to_ints(&mut tmp, &mut ints).map_err(|_| "capacity".to_string())?.len();
                let mut back = Snap::empty();
                back.read_from_ints(&mut w, &ints[..len]).map_err(|e| format!("re-read of the int form fails: {:?}", e))?;
                let mut bytes: Vec<u8> = Vec::with_capacity(5 * 17000);
                with_packer(&mut bytes, |p| s.write(&mut tmp, p).map(|b| b.len())).map_err(|_| "write: capacity".to_string())?;
                let mut back_b = Snap::empty();
                let mut ib = Vec::new();
                back_b.read(&mut w, &mut ib, &bytes).map_err(|e| format!("re-read of the byte form fails: {:?}", e))?;
                for (which, c) in [("ints", &back), ("bytes", &back_b)] {
                    if vp_snap::snap_items(c) != vp_snap::snap_items(&s) || c.crc() != s.crc() {
                        return Err(format!("copy read from {} differs", which));
                    }
                    for (t, id, d) in &items {
                        if c.item(*t, *id) != Some(&d[..]) {
                            return Err(format!("lookup of ({:?}, {}) in the copy read from {} differs", t, id, which));
                        }
                    }
                }
                if !w.is_empty() {
                    return Err(format!("warnings: {:?}", w));
                }
                Ok(())
            });
            match r {
                Ok(Ok(())) => run.class("limit:integer-length-boundaries", || json!({"case": name})),
                Ok(Err(d)) => {
                    run.violation(&format!("c10:limit:boundary-values:{}", d.split('(').next().unwrap_or("").trim()), &format!("{}: {}", name, d), json!({"family": "integer length boundaries", "case": name}));
                }
                Err(p) => {
                    run.violation(&format!("c10:{}", vp_core::panic_sig(&p)), &p, json!({"family": "integer length boundaries", "case": name}));
                }
            }
        }
    }
    // many distinct UUID types (each costs a definition item and an item: at most 511 fit): round
    // trip, recycle the copy, use every known type again and register one more
    for n in [200usize, 255, 256, 257, 258, 300, 511] {
        run.add_evals(1);
        let uu = |k: usize| Uuid::from_bytes([0x77, (k >> 8) as u8, k as u8, 3, 4, 5, 6, 7, 8, 9, 10, 11, 12, 13, 14, (k * 7) as u8]);
        let r = vp_core::catch(|| -> Result<String, String> {
            let mut b = Builder::new();
            for k in 0..n {
                b.add_item(TypeId::Uuid(uu(k)), (k % 7) as u16, &[k as i32]).map_err(|e| format!("type #{} refused: {:?}", k, e))?;
            }
            let s = b.finish();
            let mut tmp = Vec::new();
            let mut ints = vec![0i32; 17000];
            let len = s.write_to_ints(&mut tmp, &mut ints).map_err(|_| "capacity".to_string())?.len();
            let mut back = Snap::empty();
            let mut w: Vec<Warning> = Vec::new();
            back.read_from_ints(&mut w, &ints[..len]).map_err(|e| format!("re-read fails: {:?}", e))?;
            if vp_snap::snap_items(&back) != vp_snap::snap_items(&s) || back.crc() != s.crc() || !w.is_empty() {
                return Err("copy differs".into());
            }
            for k in 0..n {
                if back.item(TypeId::Uuid(uu(k)), (k % 7) as u16) != Some(&[k as i32][..]) {
                    return Err(format!("lookup of UUID type #{} fails in the copy", k));
                }
            }
            if n < 511 {
                // (at 511 types the snapshot is full: 1022 items)
                for (which, src) in [("original", s), ("copy", back)] {
                    let mut b2 = src.recycle();
                    for k in 0..n {
                        b2.add_item(TypeId::Uuid(uu(k)), 1, &[1]).map_err(|e| format!("recycled {}: known UUID type #{} refused: {:?}", which, k, e))?;
                    }
                    b2.add_item(TypeId::Uuid(uu(n + 5)), 1, &[2]).map_err(|e| format!("recycled {} with {} known UUID types refuses a new UUID type: {:?}", which, n, e))?;
                    let s2 = b2.finish();
                    let l2 = s2.write_to_ints(&mut tmp, &mut ints).map_err(|_| "capacity".to_string())?.len();
                    let mut back2 = Snap::empty();
                    back2.read_from_ints(&mut w, &ints[..l2]).map_err(|e| format!("recycled {}: re-read fails: {:?}", which, e))?;
                    if vp_snap::snap_items(&back2) != vp_snap::snap_items(&s2) || back2.item(TypeId::Uuid(uu(n + 5)), 1) != Some(&[2][..]) {
                        return Err(format!("recycled {}: copy differs", which));
                    }
                }
            }
            Ok(format!("limit:uuid-types:{}", if n <= 256 { "<=256" } else { ">256" }))
        });
        match r {
            Ok(Ok(c)) => run.class(&c, || json!({"uuid_types": n})),
            Ok(Err(d)) => {
                run.violation(&format!("c10:limit:{}", d.split(':').next().unwrap_or("").split('#').next().unwrap_or("")), &format!("{} UUID types: {}", n, d), json!({"family": "many UUID types", "n": n}));
            }
            Err(p) => {
                run.violation(&format!("c10:{}", vp_core::panic_sig(&p)), &p, json!({"family": "many UUID types", "n": n}));
            }
        }
    }
    for words in [16370usize, 16375, 16378, 16379, 16380, 16381, 16382, 16383, 16384] {
        run.add_evals(1);
        let r = vp_core::catch(|| -> Result<String, String> {
            let mut b = Builder::new();
            let data: Vec<i32> = (0..words).map(|x| x as i32 * 3).collect();
            let ok = b.add_item(TypeId::Uuid(u[0]), 1, &data).is_ok();
            let s = b.finish();
            let mut tmp = Vec::new();
            let mut ints = vec![0i32; 17000];
            let k = s.write_to_ints(&mut tmp, &mut ints).map_err(|_| "capacity".to_string())?.len();
            if k * 4 > 65536 {
                return Err(format!("serialized snapshot has {} bytes", k * 4));
            }
            let mut back = Snap::empty();
            let mut w: Vec<Warning> = Vec::new();
            back.read_from_ints(&mut w, &ints[..k]).map_err(|e| format!("re-read fails: {:?}", e))?;
            if back.item(TypeId::Uuid(u[0]), 1).map(|d| d.to_vec()) != s.item(TypeId::Uuid(u[0]), 1).map(|d| d.to_vec()) {
                return Err("lookup of the large UUID-typed item differs in the copy".into());
            }
            Ok(format!("limit:words:accepted{}", ok))
        });
        match r {
            Ok(Ok(c)) => run.class(&c, || json!({"words": words})),
            Ok(Err(d)) => {
                run.violation(&format!("c10:limit:{}", d.split(':').next().unwrap_or("")), &format!("words={}: {}", words, d), json!({"family": "size", "words": words}));
            }
            Err(p) => {
                run.violation(&format!("c10:{}", vp_core::panic_sig(&p)), &p, json!({"family": "size", "words": words}));
            }
        }
    }
}

fn main() {
    let run = Run::new("C10", "exploration");
    let t0 = std::time::Instant::now();
    let depth = run.tier.pick(4, 5);
    let ops = ops();
    let n = ops.len();
    let total: usize = (0..=depth).map(|d| n.pow(d as u32)).sum();
    let lc = (0..total)
        .into_par_iter()
        .fold(LocalClasses::new, |mut lc, idx| {
            let mut i = idx;
            let mut d = 0;
            while i >= n.pow(d as u32) {
                i -= n.pow(d as u32);
                d += 1;
            }
            let mut script = Vec::new();
            for _ in 0..d {
                script.push(ops[i % n]);
                i /= n;
            }
            lc.eval();
            match vp_core::catch(|| check(Prefill::None, &script)) {
                Ok(Ok(c)) => lc.class(&c, || json!({"script": script})),
                Ok(Err(msg)) => {
                    let sig = format!("c10:{}", msg.split(':').next().unwrap_or(""));
                    run.violation(&sig, &msg, json!({"script_type_id_data_indices": script, "types": ["ordinal 1", "ordinal 2", "uuid A", "uuid B", "uuid C"], "ids": IDS, "datas": datas()}));
                }
                Err(p) => {
                    run.violation(&format!("c10:{}", vp_core::panic_sig(&p)), &p, json!({"script_type_id_data_indices": script}));
                }
            }
            lc
        })
        .reduce(LocalClasses::new, |a, b| a.merge(b));
    run.merge_classes(lc);
    limits(&run);
    // near the limits: every script of length <= 2 (3 thorough) run on a builder that is
    // `room` bytes below the 64 KiB limit or 0..3 items below the 1024-item limit
    let mut pfs: Vec<Prefill> = (0..=48).step_by(4).map(Prefill::Room).collect();
    pfs.extend((1020..=1024).map(Prefill::Items));
    let ldepth = run.tier.pick(2, 3);
    let ltotal: usize = (0..=ldepth).map(|d| n.pow(d as u32)).sum();
    let jobs: Vec<(Prefill, usize)> = pfs.iter().flat_map(|&pf| (0..ltotal).map(move |i| (pf, i))).collect();
    let lc = jobs
        .into_par_iter()
        .fold(LocalClasses::new, |mut lc, (pf, idx)| {
            let mut i = idx;
            let mut d = 0;
            while i >= n.pow(d as u32) {
                i -= n.pow(d as u32);
                d += 1;
            }
            let mut script = Vec::new();
            for _ in 0..d {
                script.push(ops[i % n]);
                i /= n;
            }
            lc.eval();
            match vp_core::catch(|| check(pf, &script)) {
                Ok(Ok(c)) => lc.class(&c, || json!({"prefill": format!("{:?}", pf), "script": script})),
                Ok(Err(msg)) => {
                    let sig = format!("c10:limit:{}", msg.split(':').next().unwrap_or(""));
                    run.violation(&sig, &msg, json!({"prefill": format!("{:?}", pf), "script_type_id_data_indices": script, "types": ["ordinal 1", "ordinal 2", "uuid A", "uuid B", "uuid C"], "ids": IDS, "datas": datas()}));
                }
                Err(p) => {
                    run.violation(&format!("c10:limit:{}", vp_core::panic_sig(&p)), &p, json!({"prefill": format!("{:?}", pf), "script_type_id_data_indices": script}));
                }
            }
            lc
        })
        .reduce(LocalClasses::new, |a, b| a.merge(b));
    run.merge_classes(lc);
    run.finish(
        &format!("all builder scripts of length <= {} over add_item(type in {{ordinal 1, ordinal 2, 3 UUID types}}, id in {{0,1,65535}}, data in {{[],[7],[1,2,3]}}) (an add the builder refuses leaves the reference map unchanged and the builder stays in use): written to bytes and ints, read back, compared through items(), item(type,id) for every key of the alphabet and crc(); copies obtained by delta from the empty snapshot and from the script prefix; the wire forms read again into objects that already hold the same / another snapshot; received copy recycled (known UUID types keep their number, a new one gets a fresh one), then two more generations in which the UUID types lie dormant and are used again; item-count and size limit families (int and byte form); ids, data words, item counts and sizes on both sides of every length boundary of the variable-length integer code; 200..511 distinct UUID types round-tripped, recycled (original and copy), every known type used again and one more registered; every script of length <= {} on a builder prefilled to 0..48 bytes below the 64 KiB limit or to 1020..1024 items", depth, ldepth),
        true,
    );
}
