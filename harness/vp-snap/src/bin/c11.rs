//! C11: snapshot and delta parsers are total and enforce their limits.

use libtw2_gamenet_common::snap_obj::TypeId;
use libtw2_packer::with_packer;
use libtw2_packer::IntUnpacker;
use libtw2_packer::Unpacker;
use libtw2_snapshot::format::Warning;
use libtw2_snapshot::snap::Builder;
use libtw2_snapshot::snap::Delta;
use libtw2_snapshot::Snap;
use std::alloc::GlobalAlloc;
use std::alloc::Layout;
use std::alloc::System;
use std::cell::Cell;
use std::collections::BTreeMap;
use std::sync::Arc;
use std::sync::Mutex;
use uuid::Uuid;
use vp_core::rayon::prelude::*;
use vp_core::serde_json::json;
use vp_core::LocalClasses;
use vp_core::Run;
use vp_core::Tier;
use vp_snap::obj_size;

// --- counting allocator (thread-local live/peak bytes) ----------------------

thread_local! {
    static LIVE: Cell<isize> = Cell::new(0);
    static PEAK: Cell<isize> = Cell::new(0);
}

struct Counting;

unsafe impl GlobalAlloc for Counting {
    unsafe fn alloc(&self, l: Layout) -> *mut u8 {
        let _ = LIVE.try_with(|c| {
            let v = c.get() + l.size() as isize;
            c.set(v);
            let _ = PEAK.try_with(|p| {
                if v > p.get() {
                    p.set(v)
                }
            });
        });
        System.alloc(l)
    }
    unsafe fn dealloc(&self, p: *mut u8, l: Layout) {
        let _ = LIVE.try_with(|c| c.set(c.get() - l.size() as isize));
        System.dealloc(p, l)
    }
    unsafe fn realloc(&self, p: *mut u8, l: Layout, new: usize) -> *mut u8 {
        let _ = LIVE.try_with(|c| {
            let v = c.get() + new as isize - l.size() as isize;
            c.set(v);
            let _ = PEAK.try_with(|p| {
                if v > p.get() {
                    p.set(v)
                }
            });
        });
        System.realloc(p, l, new)
    }
}

#[global_allocator]
static A: Counting = Counting;

/// Peak additional live bytes while running `f` on this thread.
fn measure<T>(f: impl FnOnce() -> T) -> (T, usize) {
    let base = LIVE.with(|c| c.get());
    PEAK.with(|p| p.set(base));
    let r = f();
    let peak = PEAK.with(|p| p.get());
    (r, (peak - base).max(0) as usize)
}

// --- helpers ------------------------------------------------------------------

fn ints_to_bytes(ints: &[i32]) -> Vec<u8> {
    let mut b: Vec<u8> = Vec::with_capacity(ints.len() * 5 + 8);
    with_packer(&mut b, |mut p| {
        for &i in ints {
            p.write_int(i).unwrap();
        }
    });
    b
}

fn snap_ints(s: &Snap) -> Vec<i32> {
    let mut tmp = Vec::new();
    let mut out = vec![0i32; 17000];
    let n = s.write_to_ints(&mut tmp, &mut out).expect("fits").len();
    out.truncate(n);
    out
}

type Pool = Mutex<BTreeMap<Vec<i32>, ()>>;

static FAMILY_CAP_A: std::sync::atomic::AtomicUsize = std::sync::atomic::AtomicUsize::new(120);

/// Checks on an accepted snapshot. `input_bytes` = size of the input it came from.
fn accepted_snapshot(s: &Snap, what: &str) -> Result<Vec<i32>, String> {
    let n_items = s.items().len();
    let raw_items = {
        // every raw item including registry entries
        let ints = snap_ints(s);
        ints[1] as usize
    };
    if raw_items > 1024 {
        return Err(format!("{}: accepted snapshot holds {} items", what, raw_items));
    }
    let ints = snap_ints(s);
    if ints.len() * 4 > 65536 {
        return Err(format!("{}: accepted snapshot serializes to {} bytes", what, ints.len() * 4));
    }
    let mut back = Snap::empty();
    let mut w: Vec<Warning> = Vec::new();
    back.read_from_ints(&mut w, &ints).map_err(|e| format!("{}: accepted snapshot cannot be read back: {:?}", what, e))?;
    if vp_snap::snap_items(&back) != vp_snap::snap_items(s) || back.crc() != s.crc() || snap_ints(&back) != ints {
        return Err(format!("{}: written and re-read snapshot differs", what));
    }
    // byte form too
    let mut bytes: Vec<u8> = Vec::with_capacity(ints.len() * 5 + 16);
    let mut tmp = Vec::new();
    with_packer(&mut bytes, |p| s.write(&mut tmp, p).map(|b| b.len())).map_err(|_| format!("{}: write to bytes: capacity", what))?;
    let mut back2 = Snap::empty();
    let mut ib = Vec::new();
    back2.read(&mut w, &mut ib, &bytes).map_err(|e| format!("{}: byte form cannot be read back: {:?}", what, e))?;
    if snap_ints(&back2) != ints {
        return Err(format!("{}: byte form re-read differs", what));
    }
    // follow-up operations
    for i in s.items() {
        if s.item(i.type_id, i.id) != Some(i.data) {
            return Err(format!("{}: item() does not find an enumerated item {:?}/{}", what, i.type_id, i.id));
        }
    }
    let _ = n_items;
    Ok(ints)
}

fn recycle_followup(s: &Snap) -> Result<(), String> {
    let mut b = s.clone().recycle();
    let fresh = Uuid::from_bytes([0xab; 16]);
    match b.add_item(TypeId::Uuid(fresh), 3, &[1, 2]) {
        Ok(()) | Err(_) => {}
    }
    let _ = b.add_item(TypeId::Ordinal(5), 3, &[1]);
    let s2 = b.finish();
    let ints = snap_ints(&s2);
    let mut back = Snap::empty();
    let mut w: Vec<Warning> = Vec::new();
    back.read_from_ints(&mut w, &ints).map_err(|e| format!("snapshot built by a recycled builder cannot be read back: {:?}", e))?;
    Ok(())
}

thread_local! {
    /// objects that already hold something: the parsers must replace it completely
    static DIRTY_SNAP: Snap = valid_snapshots().pop().unwrap();
    static DIRTY_DELTA: Delta = {
        let v = valid_snapshots();
        let mut d = Delta::new();
        d.create(&v[v.len() - 1], &v[v.len() - 2]);
        d
    };
}

thread_local! {
    /// objects whose PREVIOUS read was refused half-way (in the first item's data, in a later
    /// item, in the list of deleted keys, at a bad size): whatever the refused input left behind
    /// must not show in the next result
    static FAILED_DELTAS: Vec<Delta> = {
        // delta ints: deleted, updated, 0, [deleted keys], then per item: type, id, [size], data...
        let inputs: Vec<Vec<i32>> = vec![
            vec![0, 1, 0, 5, 1, 3, 7, 8],                  // ends inside the data of the first item
            vec![0, 2, 0, 5, 1, 2, 7, 8, 5, 2, 4, 9],      // ends inside the second item
            vec![2, 1, 0, 0x0005_0001],                    // ends inside the deleted keys
            vec![0, 1, 0, 5, 1, -1, 7],                    // negative size
            vec![0, 1, 0, 5, 1, 70000, 7, 8, 9],           // size beyond the input
            vec![1, 2, 0, 0x0005_0009, 6, 1, 1, 42, 6, 1, 1], // a complete item, then a truncated one
        ];
        let mut out = Vec::new();
        for i in &inputs {
            let mut d = DIRTY_DELTA.with(|d| d.clone());
            let mut w: Vec<Warning> = Vec::new();
            let r = d.read_from_ints(&mut w, obj_size, &mut IntUnpacker::new(i));
            assert!(r.is_err(), "harness: {:?} was meant to be refused", i);
            out.push(d.clone());
            let mut d = Delta::new();
            let _ = d.read(&mut w, obj_size, &mut Unpacker::new(&ints_to_bytes(i)));
            out.push(d);
        }
        out
    };
    static FAILED_SNAPS: Vec<Snap> = {
        // snapshot ints: data size, num items, offsets..., items (key, data...)
        let inputs: Vec<Vec<i32>> = vec![
            vec![16, 2, 0, 8, 0x0005_0001, 7, 0x0005_0002],          // ends inside the second item
            vec![16, 2, 0, 8, 0x0005_0001, 7, 0x0005_0001, 8],       // the same key twice
            vec![16, 2, 0, 6, 0x0005_0001, 7, 0x0005_0002, 8],       // unaligned offset
            vec![24, 3, 0, 8, 8, 0x0005_0001, 7, 0x0005_0002, 8, 0x0005_0003, 9], // offsets not increasing
        ];
        let mut out = Vec::new();
        for i in &inputs {
            let mut s = DIRTY_SNAP.with(|d| d.clone());
            let mut w: Vec<Warning> = Vec::new();
            let r = s.read_from_ints(&mut w, i);
            assert!(r.is_err(), "harness: {:?} was meant to be refused", i);
            out.push(s);
        }
        // an object whose previous read_with_delta was refused at the second item (size mismatch)
        let v = valid_snapshots();
        let base = &v[v.len() - 1];
        let first: Vec<(i32, i32, usize)> = base.items().take(2).map(|i| (match i.type_id { libtw2_gamenet_common::snap_obj::TypeId::Ordinal(t) => t as i32, _ => -1 }, i.id as i32, i.data.len())).collect();
        if first.len() == 2 && first.iter().all(|f| f.0 >= 0) {
            let mut ints = vec![0, 2, 0, first[0].0, first[0].1, first[0].2 as i32];
            ints.extend(std::iter::repeat(1).take(first[0].2));
            ints.extend([first[1].0, first[1].1, first[1].2 as i32 + 1]);
            ints.extend(std::iter::repeat(1).take(first[1].2 + 1));
            let mut d = Delta::new();
            let mut w: Vec<Warning> = Vec::new();
            if d.read_from_ints(&mut w, |_| None, &mut IntUnpacker::new(&ints)).is_ok() {
                let mut s = DIRTY_SNAP.with(|d| d.clone());
                if s.read_with_delta(&mut w, base, &d).is_err() {
                    out.push(s);
                }
            }
        }
        out
    };
}

fn delta_ints(d: &Delta) -> Result<Vec<i32>, String> {
    let mut out = vec![0i32; 20000];
    let n = d.write_to_ints(obj_size, &mut out).map_err(|_| "accepted delta does not fit 20000 ints".to_string())?.len();
    out.truncate(n);
    Ok(out)
}

fn try_snapshot_ints(ints: &[i32], pool: &Pool) -> Result<&'static str, String> {
    let input_bytes = ints.len() * 4;
    let mut s = Snap::empty();
    let mut w: Vec<Warning> = Vec::new();
    let (r, peak) = measure(|| s.read_from_ints(&mut w, ints));
    if peak > 64 * input_bytes + 65536 {
        return Err(format!("read_from_ints allocates {} bytes for {} input bytes", peak, input_bytes));
    }
    // byte form
    let bytes = ints_to_bytes(ints);
    // the byte form is read into an object that already holds another snapshot
    let mut s2 = DIRTY_SNAP.with(|d| d.clone());
    let mut ib = Vec::new();
    let (r2, peak2) = measure(|| s2.read(&mut w, &mut ib, &bytes));
    if peak2 > 64 * bytes.len() + 65536 {
        return Err(format!("read allocates {} bytes for {} input bytes", peak2, bytes.len()));
    }
    if r.is_ok() != r2.is_ok() {
        return Err(format!("int form {:?} but byte form {:?}", r, r2));
    }
    // ... and into objects whose previous read was refused half-way
    let failed: Vec<Snap> = FAILED_SNAPS.with(|f| f.clone());
    let mut after_failure: Vec<Snap> = Vec::new();
    for (k, mut sf) in failed.into_iter().enumerate() {
        let rf = if k % 2 == 0 { sf.read_from_ints(&mut w, ints) } else { sf.read(&mut w, &mut ib, &bytes) };
        if rf.is_ok() != r.is_ok() {
            return Err(format!("a fresh object answers {:?}, an object whose previous read was refused answers {:?}", r, rf));
        }
        after_failure.push(sf);
    }
    match r {
        Err(_) => Ok("snap:rejected"),
        Ok(()) => {
            let out = accepted_snapshot(&s, "snapshot from ints")?;
            for sf in &after_failure {
                if accepted_snapshot(sf, "snapshot read into an object whose previous read was refused")? != out {
                    return Err("the same input read into an object whose previous read was refused half-way gives a different snapshot".into());
                }
                recycle_followup(sf)?;
            }
            // the copy that went into a used object (it held two UUID types) must be the same
            // snapshot and pass the same checks, incl. enumeration and the follow-up recycle
            let out2 = accepted_snapshot(&s2, "snapshot from bytes, read into a used object")?;
            if out2 != out {
                return Err("the same input read into an object that held another snapshot gives a different snapshot".into());
            }
            recycle_followup(&s2)?;
            recycle_followup(&s)?;
            let mut p = pool.lock().unwrap();
            // distinct, non-empty snapshots; per-family caps keep the pool diverse
            if out.len() > 2 && p.len() < FAMILY_CAP_A.load(std::sync::atomic::Ordering::Relaxed) {
                p.insert(out, ());
            }
            Ok("snap:accepted")
        }
    }
}

fn try_delta_ints(ints: &[i32], dpool: &Mutex<BTreeMap<Vec<i32>, ()>>) -> Result<&'static str, String> {
    let mut d = Delta::new();
    let mut w: Vec<Warning> = Vec::new();
    let (r, peak) = measure(|| d.read_from_ints(&mut w, obj_size, &mut IntUnpacker::new(ints)));
    if peak > 64 * ints.len() * 4 + 65536 {
        return Err(format!("Delta::read_from_ints allocates {} bytes for {} input bytes", peak, ints.len() * 4));
    }
    let bytes = ints_to_bytes(ints);
    // the byte form is read into an object that already holds another delta
    let mut d2 = DIRTY_DELTA.with(|d| d.clone());
    let (r2, peak2) = measure(|| d2.read(&mut w, obj_size, &mut Unpacker::new(&bytes)));
    if peak2 > 64 * bytes.len() + 65536 {
        return Err(format!("Delta::read allocates {} bytes for {} input bytes", peak2, bytes.len()));
    }
    if r.is_ok() != r2.is_ok() {
        return Err(format!("delta int form {:?} but byte form {:?}", r, r2));
    }
    let failed: Vec<Delta> = FAILED_DELTAS.with(|f| f.clone());
    let mut after_failure: Vec<Delta> = Vec::new();
    for (k, mut df) in failed.into_iter().enumerate() {
        let rf = if k % 2 == 0 { df.read_from_ints(&mut w, obj_size, &mut IntUnpacker::new(ints)) } else { df.read(&mut w, obj_size, &mut Unpacker::new(&bytes)) };
        if rf.is_ok() != r.is_ok() {
            return Err(format!("a fresh Delta answers {:?}, a Delta whose previous read was refused answers {:?}", r, rf));
        }
        after_failure.push(df);
    }
    match r {
        Err(_) => Ok("delta:rejected"),
        Ok(()) => {
            for df in &after_failure {
                if delta_ints(df)? != delta_ints(&d)? {
                    return Err("the same input read into a Delta whose previous read was refused half-way gives a different delta".into());
                }
            }
            if delta_ints(&d)? != delta_ints(&d2)? {
                return Err("the same input read into an object that held another delta gives a different delta".into());
            }
            let mut p = dpool.lock().unwrap();
            if ints.len() > 3 && p.len() < FAMILY_CAP_A.load(std::sync::atomic::Ordering::Relaxed) {
                p.insert(ints.to_vec(), ());
            }
            Ok("delta:accepted")
        }
    }
}

const VALS: [i32; 15] = [i32::MIN, -1, 0, 1, 2, 3, 4, 5, 8, 12, 1024, 1025, 16384, 65536, i32::MAX];
const BOUNDARY: [i32; 18] = [i32::MIN, -4, -1, 0, 1, 2, 3, 4, 5, 8, 0x3fff, 0x4000, 0x7fff, 0x8000, 0xffff, 0x10000, 1 << 20, i32::MAX];

fn valid_snapshots() -> Vec<Snap> {
    let u = [Uuid::from_bytes([0x11; 16]), Uuid::from_bytes([0xfe; 16])];
    let mut v = Vec::new();
    let scripts: Vec<Vec<(TypeId, u16, Vec<i32>)>> = vec![
        vec![],
        vec![(TypeId::Ordinal(1), 0, vec![5, 6])],
        vec![(TypeId::Ordinal(1), 0, vec![5, 6]), (TypeId::Ordinal(2), 7, vec![])],
        vec![(TypeId::Ordinal(1), 1, vec![1, -1]), (TypeId::Uuid(u[0]), 2, vec![9, 9, 9]), (TypeId::Ordinal(0x3fff), 65535, vec![3])],
        vec![(TypeId::Uuid(u[0]), 0, vec![1]), (TypeId::Uuid(u[1]), 0, vec![2, 3]), (TypeId::Uuid(u[0]), 1, vec![4])],
    ];
    for s in scripts {
        let mut b = Builder::new();
        for (t, id, d) in s {
            b.add_item(t, id, &d).unwrap();
        }
        v.push(b.finish());
    }
    v
}

fn main() {
    let run = Run::new("C11", "exploration");
    let thorough = run.tier == Tier::Thorough;
    let pool: Pool = Mutex::new(BTreeMap::new());
    let dpool: Mutex<BTreeMap<Vec<i32>, ()>> = Mutex::new(BTreeMap::new());
    let go = |name: &str, inputs: Vec<Vec<i32>>| {
        let lc = inputs
            .par_iter()
            .fold(LocalClasses::new, |mut lc, ints| {
                for (kind, r) in [
                    ("snapshot", vp_core::catch(|| try_snapshot_ints(ints, &pool))),
                    ("delta", vp_core::catch(|| try_delta_ints(ints, &dpool))),
                ] {
                    lc.eval();
                    match r {
                        Ok(Ok(c)) => lc.class(&format!("{}:{}", name, c), || json!({"ints": if ints.len() > 40 { json!(format!("{} ints", ints.len())) } else { json!(ints) }})),
                        Ok(Err(d)) => {
                            run.violation(&format!("c11:{}:{}", kind, d.split(':').next().unwrap_or("").chars().take(70).collect::<String>()), &d, json!({"family": name, "parsed_as": kind, "ints": ints}));
                        }
                        Err(p) => {
                            run.violation(&format!("c11:{}:{}", kind, vp_core::panic_sig(&p)), &p, json!({"family": name, "parsed_as": kind, "ints": ints}));
                        }
                    }
                }
                lc
            })
            .reduce(LocalClasses::new, |a, b| a.merge(b));
        run.merge_classes(lc);
    };
    // (a) all int sequences up to a length over 15 values
    let maxlen = if thorough { 6 } else { 5 };
    let mut seqs: Vec<Vec<i32>> = Vec::new();
    for l in 0..=maxlen {
        for idx in 0..15usize.pow(l as u32) {
            seqs.push((0..l).map(|k| VALS[(idx / 15usize.pow(k as u32)) % 15]).collect());
        }
    }
    go("all-sequences", seqs);
    FAMILY_CAP_A.store(320, std::sync::atomic::Ordering::Relaxed);
    // (b) corruptions of valid snapshots and deltas
    let valid = valid_snapshots();
    let mut bases: Vec<Vec<i32>> = valid.iter().map(snap_ints).collect();
    for a in &valid {
        for b in &valid {
            let mut d = Delta::new();
            if vp_core::catch(|| d.create(a, b)).is_ok() {
                let mut out = vec![0i32; 4096];
                let n = d.write_to_ints(obj_size, &mut out).unwrap().len();
                out.truncate(n);
                bases.push(out);
            }
        }
    }
    bases.sort();
    bases.dedup();
    let mut muts: Vec<Vec<i32>> = Vec::new();
    for b in &bases {
        for cut in 0..=b.len() {
            muts.push(b[..cut].to_vec());
        }
        for i in 0..b.len() {
            for &x in &BOUNDARY {
                let mut m = b.clone();
                m[i] = x;
                muts.push(m.clone());
                if thorough || i < 4 {
                    for j in (i + 1)..b.len().min(i + if thorough { 8 } else { 4 }) {
                        for &y in &BOUNDARY {
                            let mut m2 = m.clone();
                            m2[j] = y;
                            muts.push(m2);
                        }
                    }
                }
            }
            for dv in [-4, -1, 1, 4] {
                let mut m = b.clone();
                m[i] = m[i].wrapping_add(dv);
                muts.push(m);
            }
        }
        // extension
        for extra in [0, 1, -1] {
            let mut m = b.clone();
            m.push(extra);
            muts.push(m);
        }
    }
    go("corruptions", muts);
    // (b2) the byte form with one integer written in a non-canonical way (overlong forms, five
    // bytes with padding bits set, the sign bit with all digits zero): the byte readers must
    // return a value or an error
    {
        const ODD: [&[u8]; 10] = [b"\x80\x00", b"\xc0\x00", b"\x80\x80\x80\x80\x00", b"\xc0\x80\x80\x80\x10", b"\x80\x80\x80\x80\x10", b"\xc0\x80\x80\x80\xf0", b"\xff\xff\xff\xff\xff", b"\xff\xff\xff\xff\x1f", b"\xbf\xff\xff\xff\x7f", b"\xc0\x80\x80\x80\x70"];
        let mut raw: Vec<(bool, Vec<u8>)> = Vec::new();
        // (every base is tried as a snapshot and as a delta, as in the other families)
        for (is_delta, base) in bases.iter().map(|v| (false, v)).chain(bases.iter().map(|v| (true, v))) {
            for pos in 0..base.len().min(24) {
                for odd in ODD {
                    let mut b = ints_to_bytes(&base[..pos]);
                    b.extend_from_slice(odd);
                    b.extend_from_slice(&ints_to_bytes(&base[pos + 1..]));
                    raw.push((is_delta, b));
                }
            }
        }
        let lc = raw
            .par_iter()
            .fold(LocalClasses::new, |mut lc, (is_delta, bytes)| {
                lc.eval();
                let r = vp_core::catch(|| {
                    let mut w: Vec<Warning> = Vec::new();
                    if *is_delta {
                        let mut d = DIRTY_DELTA.with(|d| d.clone());
                        d.read(&mut w, obj_size, &mut Unpacker::new(bytes)).is_ok()
                    } else {
                        let mut s = DIRTY_SNAP.with(|d| d.clone());
                        let mut ib = Vec::new();
                        let ok = s.read(&mut w, &mut ib, bytes).is_ok();
                        if ok {
                            let _ = s.items().count();
                            let _ = snap_ints(&s);
                        }
                        ok
                    }
                });
                match r {
                    Ok(ok) => lc.class(&format!("non-canonical-int:{}:{}", if *is_delta { "delta" } else { "snapshot" }, if ok { "accepted" } else { "rejected" }), || json!({"bytes": vp_core::hex_short(bytes)})),
                    Err(p) => {
                        run.violation(&format!("c11:{}:{}", if *is_delta { "delta" } else { "snapshot" }, vp_core::panic_sig(&p)), &p, json!({"family": "byte form with a non-canonical integer", "bytes_hex": vp_core::hex(bytes)}));
                    }
                }
                lc
            })
            .reduce(LocalClasses::new, |a, b| a.merge(b));
        run.merge_classes(lc);
    }
    FAMILY_CAP_A.store(400, std::sync::atomic::Ordering::Relaxed);
    // (c) hand-made hostile structures
    let ua = libtw2_snapshot::format::uuid_to_item_data(Uuid::from_bytes([0x11; 16]));
    let mut hostile: Vec<Vec<i32>> = vec![
        // duplicate keys
        vec![16, 2, 0, 8, 0x10000, 7, 0x10000, 8],
        // registry item of wrong length, missing registry item, duplicate uuid
        vec![12, 1, 0, 0x4000, 1, 2],
        vec![8, 1, 0, 0x4000_0000u32 as i32, 5],
        vec![40, 2, 0, 20, 0x4000, ua[0], ua[1], ua[2], ua[3], 0x4001, ua[0], ua[1], ua[2], ua[3]],
        // oversized counts
        vec![0, 1025],
        vec![0, i32::MAX],
        vec![i32::MAX & !3, 0],
        // delta: duplicate updates, delete + update, negative size, huge size
        vec![0, 2, 0, 2, 0, 1, 5, 2, 0, 1, 6],
        vec![1, 1, 0, 0x20000, 2, 0, 1, 6],
        vec![0, 1, 0, 2, 0, -1],
        vec![0, 1, 0, 2, 0, i32::MAX],
        vec![0, 1, 0, 2, 0, 1 << 30, 1, 2, 3],
        vec![i32::MAX, 0, 0],
        vec![0, i32::MAX, 0],
    ];
    // 1024 / 1025 items, 64 KiB +- one word
    for n in [1023usize, 1024, 1025] {
        let mut v = vec![(n * 4) as i32, n as i32];
        for i in 0..n {
            v.push((i * 4) as i32);
        }
        for i in 0..n {
            v.push(0x10000 + i as i32);
        }
        hostile.push(v);
    }
    for words in [16379usize, 16380, 16381, 16382, 16383] {
        let mut v = vec![((words + 1) * 4) as i32, 1, 0, 0x10000];
        v.extend(std::iter::repeat(7).take(words));
        hostile.push(v);
    }
    // UUID registry chain up to the top of the 16-bit range (recycle must cope)
    for top in [0x7ffeu32, 0x7fff, 0x8000, 0xffff] {
        let mut ids: Vec<u32> = Vec::new();
        let mut id = 0x4000u32 + 255;
        while id < top {
            ids.push(id);
            id += 255;
        }
        ids.push(top);
        let n = ids.len();
        let mut v = vec![(n * 5 * 4) as i32, n as i32];
        for i in 0..n {
            v.push((i * 5 * 4) as i32);
        }
        for (k, id) in ids.iter().enumerate() {
            v.push(*id as i32); // type 0, id = type number
            v.extend_from_slice(&[k as i32, 1, 2, 3]);
        }
        hostile.push(v);
    }
    // registered UUID types with numbers on both sides of the signed-key boundary together with
    // ordinal items, all of different sizes, in every wire order of the item bodies (the writer
    // sorts keys as unsigned numbers, the map behind a snapshot sorts them as signed ones)
    {
        let ub = libtw2_snapshot::format::uuid_to_item_data(Uuid::from_bytes([0x22; 16]));
        let key = |t: u32, id: u32| ((t << 16) | id) as i32;
        for (hi, lo) in [(0x8001u32, 0x7fffu32), (0xffff, 0x4000), (0x8000, 0x8001)] {
            let items: Vec<Vec<i32>> = vec![
                vec![key(0, hi), ua[0], ua[1], ua[2], ua[3]],
                vec![key(0, lo), ub[0], ub[1], ub[2], ub[3]],
                vec![key(5, 1), 7],
                vec![key(hi, 1), 1, 2, 3],
                vec![key(lo, 2), 9, 8],
                vec![key(1, 0), 4, 5],
            ];
            let orders: [[usize; 6]; 4] = [[0, 1, 2, 3, 4, 5], [5, 4, 3, 2, 1, 0], [3, 0, 4, 1, 2, 5], [2, 5, 0, 1, 4, 3]];
            for order in orders {
                let total: usize = items.iter().map(|i| i.len()).sum();
                let mut v = vec![(total * 4) as i32, items.len() as i32];
                let mut off = 0;
                for &k in &order {
                    v.push((off * 4) as i32);
                    off += items[k].len();
                }
                for &k in &order {
                    v.extend_from_slice(&items[k]);
                }
                hostile.push(v);
            }
        }
    }
    go("hostile-structures", hostile);
    // (d) every accepted delta applied to every accepted snapshot; Delta::create between all pairs
    let snaps: Vec<Vec<i32>> = pool.lock().unwrap().keys().cloned().collect();
    let deltas: Vec<Vec<i32>> = dpool.lock().unwrap().keys().cloned().collect();
    run.set("pool_snapshots", json!(snaps.len()));
    run.set("pool_deltas", json!(deltas.len()));
    let parsed: Vec<Snap> = snaps
        .iter()
        .map(|i| {
            let mut s = Snap::empty();
            let mut w: Vec<Warning> = Vec::new();
            s.read_from_ints(&mut w, i).unwrap();
            s
        })
        .collect();
    let lc = (0..parsed.len() * deltas.len())
        .into_par_iter()
        .fold(LocalClasses::new, |mut lc, k| {
            let (si, di) = (k / deltas.len(), k % deltas.len());
            lc.eval();
            let r = vp_core::catch(|| -> Result<&'static str, String> {
                let mut d = Delta::new();
                let mut w: Vec<Warning> = Vec::new();
                d.read_from_ints(&mut w, obj_size, &mut IntUnpacker::new(&deltas[di])).unwrap();
                let mut out = Snap::empty();
                let (r, peak) = measure(|| out.read_with_delta(&mut w, &parsed[si], &d));
                let input = (snaps[si].len() + deltas[di].len()) * 4;
                if peak > 64 * input + 65536 {
                    return Err(format!("read_with_delta allocates {} bytes for {} input bytes", peak, input));
                }
                match r {
                    Err(_) => Ok("apply:rejected"),
                    Ok(()) => {
                        accepted_snapshot(&out, "snapshot from delta")?;
                        recycle_followup(&out)?;
                        Ok("apply:accepted")
                    }
                }
            });
            match r {
                Ok(Ok(c)) => lc.class(c, || json!({"snapshot": snaps[si], "delta": deltas[di]})),
                Ok(Err(d)) => {
                    run.violation(&format!("c11:apply:{}", d.split(':').next().unwrap_or("")), &d, json!({"snapshot_ints": snaps[si], "delta_ints": deltas[di]}));
                }
                Err(p) => {
                    run.violation(&format!("c11:apply:{}", vp_core::panic_sig(&p)), &p, json!({"snapshot_ints": snaps[si], "delta_ints": deltas[di]}));
                }
            }
            lc
        })
        .reduce(LocalClasses::new, |a, b| a.merge(b));
    run.merge_classes(lc);
    let lc = (0..parsed.len() * parsed.len())
        .into_par_iter()
        .fold(LocalClasses::new, |mut lc, k| {
            let (a, b) = (k / parsed.len(), k % parsed.len());
            lc.eval();
            let r = vp_core::catch(|| {
                let mut d = Delta::new();
                d.create(&parsed[a], &parsed[b]);
                let mut out = Snap::empty();
                let mut w: Vec<Warning> = Vec::new();
                out.read_with_delta(&mut w, &parsed[a], &d).map(|()| snap_ints(&out) == snaps[b])
            });
            match r {
                Ok(Ok(true)) => lc.class("create:ok", || json!({"from": snaps[a], "to": snaps[b]})),
                Ok(other) => {
                    run.violation("c11:create-apply-differs", &format!("Delta::create between two accepted snapshots, applied: {:?}", other), json!({"from_ints": snaps[a], "to_ints": snaps[b]}));
                }
                Err(p) => {
                    run.violation(&format!("c11:create:{}", vp_core::panic_sig(&p)), &p, json!({"from_ints": snaps[a], "to_ints": snaps[b]}));
                }
            }
            lc
        })
        .reduce(LocalClasses::new, |a, b| a.merge(b));
    run.merge_classes(lc);
    run.assume("allocation bound checked: peak additional live bytes <= 64 x input bytes + 64 KiB per parser call (counting global allocator, thread-local)");
    run.finish(
        &format!("int sequences of length <= {} over 15 boundary values (as snapshot and as delta, int and byte form); every truncation, single (and neighbouring double) field corruption with 18 boundary values and +-1/+-4 of valid snapshots and deltas; their byte forms with each of the first 24 integers in ten non-canonical encodings; hand-made hostile structures (duplicate keys, bad registry items, oversized counts, 1023/1024/1025 items, 64 KiB +- words, UUID registry chains to the top of the type range, registered types on both sides of 0x8000 mixed with ordinal items of different sizes in several wire orders); every accepted delta applied to every accepted snapshot of a pool; Delta::create between all pool pairs; accepted => limits, write/read equality, follow-up operations incl. recycle", maxlen),
        true,
    );
}
