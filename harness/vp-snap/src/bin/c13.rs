//! C13: client and server snapshot state never diverge silently.
//! Explicit-state model: real sender `Storage` + real receiver `Manager`,
//! two lossy/duplicating/reordering channels (snapshot messages, acks).

use libtw2_gamenet_common::snap_obj::TypeId;
use libtw2_gamenet_snap as msg;
use libtw2_gamenet_snap::SnapMsg;
use libtw2_packer::with_packer;
use libtw2_snapshot::manager;
use libtw2_snapshot::snap::delta_chunks;
use libtw2_snapshot::storage::WeirdNegativeDeltaTick;
use libtw2_snapshot::Manager;
use libtw2_snapshot::Snap;
use libtw2_snapshot::Storage;
use serde_json::json;
use stateright::Checker;
use stateright::Model;
use stateright::Property;
use std::hash::Hash;
use std::hash::Hasher;
use std::sync::atomic::AtomicU64;
use std::sync::atomic::Ordering;
use std::sync::Arc;
use std::sync::Mutex;
use uuid::Uuid;
use vp_core::Run;
use vp_core::Tier;
use vp_snap::obj_size;

type Items = Vec<(TypeId, u16, Vec<i32>)>;

fn u1() -> Uuid {
    Uuid::from_bytes([0x11; 16])
}
fn u2() -> Uuid {
    Uuid::from_bytes([0x22; 16])
}

fn worlds() -> Vec<Items> {
    let big: Vec<i32> = (0..300).map(|i| 0x1234_5678 ^ (i * 7919)).collect();
    vec![
        vec![],
        vec![(TypeId::Ordinal(1), 0, vec![5, 6])],
        // (an item without any data: it adds nothing to the checksum)
        vec![(TypeId::Ordinal(1), 0, vec![5, 7]), (TypeId::Uuid(u1()), 3, vec![1]), (TypeId::Ordinal(3), 7, vec![])],
        vec![(TypeId::Uuid(u2()), 3, vec![1, 2, 3]), (TypeId::Ordinal(2), 9, vec![4])],
        vec![(TypeId::Ordinal(2), 9, big), (TypeId::Ordinal(1), 0, vec![0, 0])],
        vec![(TypeId::Uuid(u1()), 3, vec![2]), (TypeId::Uuid(u2()), 4, vec![1, 2, 3]), (TypeId::Uuid(u2()), 5, vec![0, 0, 0])],
        // 6, 7, 8: different worlds with the same checksum (two items swap their values, one
        // item changes its id) - the checksum cannot tell them apart, so a delta applied to
        // the wrong base is accepted unless the tick bookkeeping is right
        vec![(TypeId::Ordinal(1), 0, vec![5, 6]), (TypeId::Ordinal(1), 1, vec![7, 8])],
        vec![(TypeId::Ordinal(1), 0, vec![7, 8]), (TypeId::Ordinal(1), 1, vec![5, 6])],
        vec![(TypeId::Ordinal(1), 0, vec![5, 6]), (TypeId::Ordinal(1), 2, vec![7, 8])],
        // 9, 10, 11: ids, type ids and values on both sides of every length boundary of the
        // variable-length integer code the deltas are written in (6, 13, 20, 27 bits)
        // (9 and 10 keep the values small: a checksum only covers values, so a damaged id or
        // type id is not noticed by it)
        vec![(TypeId::Ordinal(1), 8192, vec![5, 6]), (TypeId::Ordinal(64), 63, vec![1]), (TypeId::Ordinal(0x3fff), 16383, vec![2])],
        vec![(TypeId::Ordinal(1), 8192, vec![5, 7]), (TypeId::Ordinal(64), 64, vec![1]), (TypeId::Uuid(u1()), 16383, vec![3]), (TypeId::Ordinal(0x2000), 8191, vec![2])],
        vec![
            (TypeId::Ordinal(1), 8193, vec![8192, -8193]),
            (TypeId::Ordinal(2), 8193, vec![16383, 16384, -16384]),
            (TypeId::Ordinal(8192), 0, vec![i32::MIN, i32::MAX, 64, -65, 1 << 20, -(1 << 20) - 1, 1 << 27, -(1 << 27) - 1]),
            (TypeId::Ordinal(63), 16384, vec![8191, -8192]),
        ],
    ]
}

#[derive(Clone, Debug, Eq, Hash, Ord, PartialEq, PartialOrd)]
struct OMsg {
    kind: u8, // 0 empty, 1 single, 2 multi
    tick: i32,
    delta_tick: i32,
    num_parts: i32,
    part: i32,
    crc: i32,
    data: Vec<u8>,
}

impl OMsg {
    fn from(m: &SnapMsg) -> OMsg {
        match *m {
            SnapMsg::SnapEmpty(s) => OMsg { kind: 0, tick: s.tick, delta_tick: s.delta_tick, num_parts: 0, part: 0, crc: 0, data: vec![] },
            SnapMsg::SnapSingle(s) => OMsg { kind: 1, tick: s.tick, delta_tick: s.delta_tick, num_parts: 1, part: 0, crc: s.crc, data: s.data.to_vec() },
            SnapMsg::Snap(s) => OMsg { kind: 2, tick: s.tick, delta_tick: s.delta_tick, num_parts: s.num_parts, part: s.part, crc: s.crc, data: s.data.to_vec() },
        }
    }
}

#[derive(Clone, Copy, Debug, Eq, Hash, PartialEq)]
enum Act {
    Send(u8),
    DeliverMsg(u8),
    DropMsg(u8),
    DupMsg(u8),
    AckEmit,
    DeliverAck(u8),
    DropAck(u8),
    DupAck(u8),
    /// `Manager::reset()` on the receiving side (what the downloader does on a map change)
    ResetReceiver,
    /// `Storage::reset()` on the sending side
    ResetSender,
}

struct PathNode {
    parent: Option<Arc<PathNode>>,
    act: Act,
}

fn path_vec(p: &Option<Arc<PathNode>>) -> Vec<Act> {
    let mut v = Vec::new();
    let mut cur = p.as_ref();
    while let Some(n) = cur {
        v.push(n.act);
        cur = n.parent.as_ref();
    }
    v.reverse();
    v
}

#[derive(Clone)]
struct St {
    sender: Arc<Storage>,
    receiver: Arc<Manager>,
    /// what the application observed: (world index per sent tick)
    sent: Vec<u8>,
    msgs: Vec<OMsg>,
    acks: Vec<i32>,
    /// observable summary of the two real objects (for deduplication)
    sender_sig: u64,
    receiver_sig: u64,
    ticks_left: u8,
    drops: u8,
    dups: u8,
    acks_left: u8,
    resets: u8,
    accepted: Vec<i32>,
    path: Option<Arc<PathNode>>,
    depth: u16,
    bad: bool,
}

impl Hash for St {
    fn hash<H: Hasher>(&self, h: &mut H) {
        self.sent.hash(h);
        self.msgs.hash(h);
        self.acks.hash(h);
        self.sender_sig.hash(h);
        self.receiver_sig.hash(h);
        (self.ticks_left, self.drops, self.dups, self.acks_left, self.resets).hash(h);
        self.accepted.hash(h);
        self.bad.hash(h);
    }
}
impl PartialEq for St {
    fn eq(&self, o: &St) -> bool {
        self.sent == o.sent
            && self.msgs == o.msgs
            && self.acks == o.acks
            && self.sender_sig == o.sender_sig
            && self.receiver_sig == o.receiver_sig
            && (self.ticks_left, self.drops, self.dups, self.acks_left, self.resets) == (o.ticks_left, o.drops, o.dups, o.acks_left, o.resets)
            && self.accepted == o.accepted
            && self.bad == o.bad
    }
}
impl Eq for St {}
impl std::fmt::Debug for St {
    fn fmt(&self, f: &mut std::fmt::Formatter) -> std::fmt::Result {
        write!(f, "St(depth {})", self.depth)
    }
}

#[derive(Clone)]
struct Cfg {
    worlds: Vec<u8>,
    ticks: u8,
    drops: u8,
    dups: u8,
    acks: u8,
    cap: usize,
    /// a tick whose world equals the acknowledged base is announced with the data-less
    /// SnapEmpty message (what Teeworlds/DDNet servers do; `delta_chunks` emits it for empty data)
    send_empty: bool,
    /// how many times either side may call its `reset()` in the middle of the history
    resets: u8,
}

impl Cfg {
    fn label(&self) -> String {
        format!("snapshots worlds{:?} ticks{} drops{} dups{} acks{} cap{}{}{}", self.worlds, self.ticks, self.drops, self.dups, self.acks, self.cap, if self.send_empty { " empty-when-unchanged" } else { "" }, if self.resets > 0 { format!(" resets{}", self.resets) } else { String::new() })
    }
}

#[derive(Default)]
struct Stats {
    calls: AtomicU64,
    accepted: AtomicU64,
    rejected: AtomicU64,
    multi_part_completed: AtomicU64,
    unknown_snap_acks: AtomicU64,
    uuid_lookups: AtomicU64,
}

struct M {
    cfg: Cfg,
    run: Arc<Run>,
    worlds: Vec<Items>,
    stats: Arc<Stats>,
    samples: Arc<Mutex<Vec<(u64, Vec<Act>)>>>,
}

fn hash_of<T: Hash>(t: &T) -> u64 {
    let mut h = std::collections::hash_map::DefaultHasher::new();
    t.hash(&mut h);
    h.finish()
}

impl M {
    fn violation(&self, s: &St, act: Act, sig: &str, detail: &str) -> bool {
        let mut p = path_vec(&s.path);
        p.push(act);
        self.run.violation(
            &format!("c13:{}", sig),
            detail,
            json!({"model": "snapshot-sender-receiver", "cfg": self.cfg.label(), "actions": p.iter().map(|a| format!("{:?}", a)).collect::<Vec<_>>(), "worlds": "see c13.rs worlds()"}),
        )
    }
    /// Sender signature: everything later behaviour can depend on, through
    /// the public API (delta tick) plus the history of sent worlds and acks
    /// processed (the storage is a deterministic function of that history).
    fn apply(&self, last: &St, act: Act) -> Option<St> {
        self.stats.calls.fetch_add(1, Ordering::Relaxed);
        let mut s = last.clone();
        s.depth += 1;
        s.path = Some(Arc::new(PathNode { parent: last.path.clone(), act }));
        let lp = last.path.clone();
        let label = self.cfg.label();
        let guard = self.run.watchdog.watch(Arc::new(move || {
            let mut p = path_vec(&lp);
            p.push(act);
            json!({"model": "snapshot-sender-receiver", "cfg": label, "actions": p.iter().map(|a| format!("{:?}", a)).collect::<Vec<_>>()})
        }));
        let r = vp_core::catch(|| self.step(&mut s, act));
        drop(guard);
        let fail = match r {
            Ok(f) => f,
            Err(p) => Some((vp_core::panic_sig(&p), format!("panic: {}", p))),
        };
        if let Some((sig, detail)) = fail {
            if self.violation(last, act, &sig, &detail) {
                return None;
            }
            s.bad = true;
        }
        Some(s)
    }

    fn step(&self, s: &mut St, act: Act) -> Option<(String, String)> {
        match act {
            Act::Send(k) => {
                s.ticks_left -= 1;
                let tick = 10 + 2 * s.sent.len() as i32;
                s.sent.push(k);
                let mut st = (*s.sender).clone();
                // exactly the server's call sequence
                let mut builder = st.new_builder();
                let delta_tick = st.delta_tick().unwrap_or(-1);
                for (t, id, d) in &self.worlds[k as usize] {
                    builder.add_item(*t, *id, d).expect("world fits");
                }
                let snap = builder.finish();
                let crc = snap.crc();
                let delta = st.add_snap(tick, snap);
                let mut buf: Vec<u8> = Vec::with_capacity(64 * 1024);
                with_packer(&mut buf, |p| delta.write(obj_size, p).map(|b| b.len())).expect("delta fits");
                if self.cfg.send_empty && buf == [0, 0, 0] {
                    // nothing deleted, nothing updated: the data-less message
                    buf.clear();
                }
                for m in delta_chunks(tick, delta_tick, &buf, crc) {
                    let o = OMsg::from(&m);
                    let pos = s.msgs.binary_search(&o).unwrap_or_else(|p| p);
                    s.msgs.insert(pos, o);
                }
                s.sender = Arc::new(st);
                s.sender_sig = hash_of(&(s.sender_sig, 1u8, k));
                None
            }
            Act::DropMsg(i) => {
                s.drops -= 1;
                s.msgs.remove(i as usize);
                None
            }
            Act::DupMsg(i) => {
                s.dups -= 1;
                let m = s.msgs[i as usize].clone();
                s.msgs.insert(i as usize, m);
                None
            }
            Act::DropAck(i) => {
                s.drops -= 1;
                s.acks.remove(i as usize);
                None
            }
            Act::DupAck(i) => {
                s.dups -= 1;
                let a = s.acks[i as usize];
                s.acks.insert(i as usize, a);
                None
            }
            Act::AckEmit => {
                s.acks_left -= 1;
                let a = s.receiver.ack_tick().unwrap_or(-1);
                let pos = s.acks.binary_search(&a).unwrap_or_else(|p| p);
                s.acks.insert(pos, a);
                None
            }
            Act::ResetReceiver => {
                s.resets -= 1;
                let mut mg = (*s.receiver).clone();
                mg.reset();
                s.receiver = Arc::new(mg);
                s.receiver_sig = hash_of(&(s.receiver_sig, 0xffu8));
                // the receiver has forgotten everything: a copy of an earlier tick still in
                // flight is a new snapshot to it
                s.accepted.clear();
                None
            }
            Act::ResetSender => {
                s.resets -= 1;
                let mut st = (*s.sender).clone();
                st.reset();
                s.sender = Arc::new(st);
                s.sender_sig = hash_of(&(s.sender_sig, 3u8));
                None
            }
            Act::DeliverAck(i) => {
                let a = s.acks.remove(i as usize);
                let mut st = (*s.sender).clone();
                let mut w: Vec<WeirdNegativeDeltaTick> = Vec::new();
                let r = st.set_delta_tick(&mut w, a);
                if r.is_err() {
                    self.stats.unknown_snap_acks.fetch_add(1, Ordering::Relaxed);
                }
                s.sender = Arc::new(st);
                s.sender_sig = hash_of(&(s.sender_sig, 2u8, a));
                None
            }
            Act::DeliverMsg(i) => {
                let m = s.msgs.remove(i as usize);
                let mut mg = (*s.receiver).clone();
                let ack_before = mg.ack_tick();
                let mut w: Vec<manager::Warning> = Vec::new();
                let tick = m.tick;
                let res = match m.kind {
                    0 => mg.snap_empty(&mut w, obj_size, msg::SnapEmpty { tick: m.tick, delta_tick: m.delta_tick }),
                    1 => mg.snap_single(&mut w, obj_size, msg::SnapSingle { tick: m.tick, delta_tick: m.delta_tick, crc: m.crc, data: &m.data }),
                    _ => mg.snap(&mut w, obj_size, msg::Snap { tick: m.tick, delta_tick: m.delta_tick, num_parts: m.num_parts, part: m.part, crc: m.crc, data: &m.data }),
                };
                let mut fail = None;
                let outcome: u8;
                match res {
                    Ok(Some(snap)) => {
                        outcome = 1;
                        self.stats.accepted.fetch_add(1, Ordering::Relaxed);
                        if m.kind == 2 {
                            self.stats.multi_part_completed.fetch_add(1, Ordering::Relaxed);
                        }
                        let idx = ((tick - 10) / 2) as usize;
                        let world = &self.worlds[s.sent[idx] as usize];
                        fail = self.compare(snap, world, tick);
                        if fail.is_none() && s.accepted.contains(&tick) {
                            fail = Some(("accepted-twice".into(), format!("snapshot for tick {} accepted twice", tick)));
                        }
                        s.accepted.push(tick);
                    }
                    Ok(None) => outcome = 2,
                    Err(_) => {
                        outcome = 3;
                        self.stats.rejected.fetch_add(1, Ordering::Relaxed);
                    }
                }
                // a duplicate of an already accepted tick is refused; the acknowledged tick
                // was that tick before and may stay
                if outcome == 3 && mg.ack_tick() == Some(tick) && ack_before != Some(tick) {
                    fail = Some(("ack-advanced-on-error".into(), format!("receiver reports an error for tick {} but its acknowledged tick is {}", tick, tick)));
                }
                if !w.is_empty() && fail.is_none() {
                    // warnings are legitimate for duplicated messages (DuplicateSnap); only
                    // recorded in the state signature
                }
                s.receiver = Arc::new(mg);
                s.receiver_sig = hash_of(&(s.receiver_sig, m, outcome));
                fail
            }
        }
    }

    fn compare(&self, snap: &Snap, world: &Items, tick: i32) -> Option<(String, String)> {
        let mut got: Vec<(String, u16, Vec<i32>)> = snap.items().map(|i| (format!("{:?}", i.type_id), i.id, i.data.to_vec())).collect();
        got.sort();
        let mut exp: Vec<(String, u16, Vec<i32>)> = world.iter().map(|(t, id, d)| (format!("{:?}", t), *id, d.clone())).collect();
        exp.sort();
        if got != exp {
            return Some((
                "accepted-snapshot-differs".into(),
                format!("receiver accepted tick {} with items {:?}, the sender built {:?}", tick, got.iter().map(|x| (&x.0, x.1, x.2.len())).collect::<Vec<_>>(), exp.iter().map(|x| (&x.0, x.1, x.2.len())).collect::<Vec<_>>()),
            ));
        }
        for (t, id, d) in world {
            if let TypeId::Uuid(_) = t {
                self.stats.uuid_lookups.fetch_add(1, Ordering::Relaxed);
            }
            if snap.item(*t, *id) != Some(&d[..]) {
                return Some((
                    "accepted-snapshot-lookup-differs".into(),
                    format!("receiver accepted tick {} but item({:?}, {}) returns {:?}", tick, t, id, snap.item(*t, *id).map(|d| d.len())),
                ));
            }
        }
        None
    }
}

impl Model for M {
    type State = St;
    type Action = Act;
    fn init_states(&self) -> Vec<St> {
        vec![St {
            sender: Arc::new(Storage::new()),
            receiver: Arc::new(Manager::new()),
            sent: vec![],
            msgs: vec![],
            acks: vec![],
            sender_sig: 0,
            receiver_sig: 0,
            ticks_left: self.cfg.ticks,
            drops: self.cfg.drops,
            dups: self.cfg.dups,
            acks_left: self.cfg.acks,
            resets: self.cfg.resets,
            accepted: vec![],
            path: None,
            depth: 0,
            bad: false,
        }]
    }
    fn actions(&self, s: &St, out: &mut Vec<Act>) {
        if s.bad {
            return;
        }
        let over = s.msgs.len() > self.cfg.cap;
        for i in 0..s.msgs.len() {
            if i > 0 && s.msgs[i] == s.msgs[i - 1] {
                continue;
            }
            out.push(Act::DeliverMsg(i as u8));
            if !over && s.drops > 0 {
                out.push(Act::DropMsg(i as u8));
            }
            if !over && s.dups > 0 && s.msgs.len() < self.cfg.cap {
                out.push(Act::DupMsg(i as u8));
            }
        }
        if over {
            return;
        }
        if s.ticks_left > 0 {
            for &k in &self.cfg.worlds {
                out.push(Act::Send(k));
            }
        }
        if s.acks_left > 0 && s.acks.len() < 3 {
            out.push(Act::AckEmit);
        }
        if s.resets > 0 && !s.sent.is_empty() {
            out.push(Act::ResetReceiver);
            out.push(Act::ResetSender);
        }
        for i in 0..s.acks.len() {
            if i > 0 && s.acks[i] == s.acks[i - 1] {
                continue;
            }
            out.push(Act::DeliverAck(i as u8));
            if s.drops > 0 {
                out.push(Act::DropAck(i as u8));
            }
            if s.dups > 0 && s.acks.len() < 3 {
                out.push(Act::DupAck(i as u8));
            }
        }
    }
    fn next_state(&self, last: &St, act: Act) -> Option<St> {
        self.apply(last, act)
    }
    fn properties(&self) -> Vec<Property<Self>> {
        vec![Property::always("holds", |m: &M, s: &St| {
            if s.bad {
                return false;
            }
            let k = hash_of(s);
            if k % 1024 == 0 || s.depth <= 1 {
                let mut v = m.samples.lock().unwrap();
                if v.len() < 200 {
                    v.push((k, path_vec(&s.path)));
                }
            }
            true
        })]
    }
}

fn main() {
    let run = Run::new("C13", "model_checking");
    let cfgs = match run.tier {
        Tier::Quick => vec![
            Cfg { worlds: vec![1, 2, 4], ticks: 3, drops: 1, dups: 0, acks: 2, cap: 4, send_empty: false, resets: 0 },
            Cfg { worlds: vec![1, 4], ticks: 2, drops: 1, dups: 1, acks: 2, cap: 4, send_empty: false, resets: 0 },
            Cfg { worlds: vec![0, 2, 3, 5], ticks: 3, drops: 1, dups: 0, acks: 2, cap: 4, send_empty: false, resets: 0 },
            Cfg { worlds: vec![6, 7, 8], ticks: 3, drops: 0, dups: 1, acks: 2, cap: 4, send_empty: false, resets: 0 },
            Cfg { worlds: vec![9, 10, 11], ticks: 3, drops: 1, dups: 0, acks: 2, cap: 4, send_empty: false, resets: 0 },
            Cfg { worlds: vec![1, 2, 0], ticks: 3, drops: 1, dups: 0, acks: 2, cap: 4, send_empty: true, resets: 0 },
            Cfg { worlds: vec![1, 2], ticks: 4, drops: 0, dups: 0, acks: 3, cap: 4, send_empty: true, resets: 0 },
            // either side resets in the middle of the history
            Cfg { worlds: vec![6, 7, 8], ticks: 3, drops: 0, dups: 0, acks: 2, cap: 4, send_empty: false, resets: 1 },
            Cfg { worlds: vec![1, 4], ticks: 2, drops: 1, dups: 0, acks: 2, cap: 4, send_empty: false, resets: 1 },
            Cfg { worlds: vec![1, 6], ticks: 3, drops: 0, dups: 0, acks: 2, cap: 4, send_empty: true, resets: 1 },
            Cfg { worlds: vec![6, 7], ticks: 2, drops: 0, dups: 1, acks: 2, cap: 4, send_empty: false, resets: 2 },
            // a receiver that has reset refuses a delta still in flight (unknown base); the next
            // message may be the data-less one for the empty world against the empty base
            Cfg { worlds: vec![1, 2, 0], ticks: 3, drops: 0, dups: 0, acks: 2, cap: 4, send_empty: true, resets: 1 },
        ],
        Tier::Thorough => vec![
            // sized on this machine (depth-first): 287 M, 17 M, 298 M, 49 M, 6 M, 6 M states
            Cfg { worlds: vec![0, 1, 2, 4], ticks: 4, drops: 2, dups: 0, acks: 3, cap: 4, send_empty: false, resets: 0 },
            Cfg { worlds: vec![1, 2, 3, 5], ticks: 4, drops: 1, dups: 0, acks: 3, cap: 4, send_empty: false, resets: 0 },
            Cfg { worlds: vec![1, 4], ticks: 4, drops: 1, dups: 1, acks: 2, cap: 4, send_empty: false, resets: 0 },
            Cfg { worlds: vec![6, 7, 8], ticks: 4, drops: 0, dups: 1, acks: 3, cap: 4, send_empty: false, resets: 0 },
            Cfg { worlds: vec![1, 6, 7], ticks: 4, drops: 1, dups: 0, acks: 3, cap: 4, send_empty: false, resets: 0 },
            Cfg { worlds: vec![9, 10, 11], ticks: 4, drops: 1, dups: 0, acks: 3, cap: 4, send_empty: false, resets: 0 },
            Cfg { worlds: vec![1, 2, 0], ticks: 4, drops: 1, dups: 0, acks: 3, cap: 4, send_empty: true, resets: 0 },
            Cfg { worlds: vec![1, 2, 0], ticks: 4, drops: 0, dups: 1, acks: 3, cap: 4, send_empty: true, resets: 0 },
            // either side resets in the middle of the history (4.2 M, 4.7 M, 0.2 M states)
            Cfg { worlds: vec![1, 2, 4], ticks: 3, drops: 1, dups: 0, acks: 2, cap: 4, send_empty: false, resets: 1 },
            Cfg { worlds: vec![1, 6], ticks: 3, drops: 0, dups: 1, acks: 2, cap: 4, send_empty: true, resets: 2 },
            Cfg { worlds: vec![6, 7, 8], ticks: 3, drops: 0, dups: 0, acks: 2, cap: 4, send_empty: false, resets: 1 },
        ],
    };
    // sizing experiments: VERIF_C13_CFG="0,1,2,4;4;1;1;2;4;0" = worlds;ticks;drops;dups;acks;cap;send_empty
    let cfgs = match std::env::var("VERIF_C13_CFG") {
        Ok(v) => {
            let f: Vec<&str> = v.split(';').collect();
            let n = |i: usize| f[i].parse::<u8>().expect("number");
            vec![Cfg { worlds: f[0].split(',').map(|x| x.parse().expect("world")).collect(), ticks: n(1), drops: n(2), dups: n(3), acks: n(4), cap: n(5) as usize, send_empty: n(6) != 0, resets: f.get(7).map(|x| x.parse().expect("resets")).unwrap_or(0) }]
        }
        Err(_) => cfgs,
    };
    let mut total_states = 0u64;
    let mut total_trans = 0u64;
    let mut validated = 0u64;
    let mut cfg_json = Vec::new();
    let mut samples_json = Vec::new();
    for cfg in cfgs {
        let t0 = std::time::Instant::now();
        let label = cfg.label();
        let m = M { cfg: cfg.clone(), run: run.clone(), worlds: worlds(), stats: Arc::new(Stats::default()), samples: Arc::new(Mutex::new(Vec::new())) };
        let (m_stats, m_samples) = (m.stats.clone(), m.samples.clone());
        let before = run.num_violations();
        // every state owns clones of the real Storage and Manager: depth-first search keeps far
        // fewer of them alive at once (thorough tier); breadth-first gives the shortest
        // counterexamples (quick tier)
        let threads = std::thread::available_parallelism().map(|n| n.get()).unwrap_or(8);
        let (states, trans, max_depth) = if run.tier == Tier::Thorough {
            let c = m.checker().threads(threads).spawn_dfs().join();
            (c.unique_state_count() as u64, c.state_count() as u64, c.max_depth())
        } else {
            let c = m.checker().threads(threads).spawn_bfs().join();
            (c.unique_state_count() as u64, c.state_count() as u64, c.max_depth())
        };
        // a second instance of the same model re-executes the sampled paths
        let model = &M { cfg, run: run.clone(), worlds: worlds(), stats: Arc::new(Stats::default()), samples: Arc::new(Mutex::new(Vec::new())) };
        let violated = run.num_violations() > before;
        if !violated {
            for (key, path) in m_samples.lock().unwrap().iter() {
                for _ in 0..2 {
                    let mut s = model.init_states().pop().unwrap();
                    for &a in path {
                        s = match model.apply(&s, a) {
                            Some(s) => s,
                            None => vp_core::machinery_error("replay hit a pruned branch"),
                        };
                    }
                    if hash_of(&s) != *key {
                        vp_core::machinery_error(&format!("replay divergence in {}: {:?}", label, path));
                    }
                }
                validated += 1;
                if samples_json.len() < 6 && path.len() >= 5 {
                    samples_json.push(json!({"cfg": label, "actions": path.iter().map(|a| format!("{:?}", a)).collect::<Vec<_>>()}));
                }
            }
        }
        let st = &m_stats;
        let stats = json!({
            "real_calls": st.calls.load(Ordering::Relaxed),
            "snapshots_accepted_by_receiver": st.accepted.load(Ordering::Relaxed),
            "messages_rejected_by_receiver": st.rejected.load(Ordering::Relaxed),
            "multi_part_transfers_completed": st.multi_part_completed.load(Ordering::Relaxed),
            "acks_naming_unknown_snapshots": st.unknown_snap_acks.load(Ordering::Relaxed),
            "uuid_item_lookups_compared": st.uuid_lookups.load(Ordering::Relaxed),
        });
        println!("  [{}] states={} transitions={} depth={} {:.1}s{}", label, states, trans, max_depth, t0.elapsed().as_secs_f64(), if violated { " VIOLATED" } else { "" });
        run.class(&format!("cfg:{}", label), || json!({"states": states, "stats": stats}));
        cfg_json.push(json!({"cfg": label, "states": states, "transitions": trans, "max_depth": max_depth, "wall_s": t0.elapsed().as_secs_f64(), "stats": stats}));
        total_states += states;
        total_trans += trans;
        if violated {
            break;
        }
    }
    // Long linear histories (no branching; every history of the listed family is run): the
    // receiver's and the sender's stores are bounded (100 snapshots), which no short history
    // reaches. `n` snapshots are sent and delivered in order; acknowledgements are delivered
    // never, every `k`-th tick, or only once after `k` ticks.
    if run.num_violations() == 0 {
        let mut long_total = 0u64;
        let cfg = Cfg { worlds: vec![1, 2, 6, 7, 8], ticks: 255, drops: 0, dups: 0, acks: 255, cap: 8, send_empty: false, resets: 0 };
        let label = cfg.label();
        let m = M { cfg, run: run.clone(), worlds: worlds(), stats: Arc::new(Stats::default()), samples: Arc::new(Mutex::new(Vec::new())) };
        let lens: &[usize] = if run.tier == Tier::Thorough { &[99, 100, 101, 102, 103, 130, 201, 205, 250] } else { &[101, 103, 205] };
        // two world sequences: one with different checksums (a wrong delta base shows as an error,
        // which is allowed) and one over the three equal-checksum worlds (a wrong delta base is
        // accepted silently unless the tick bookkeeping on both sides is right)
        'outer: for &n in lens {
            for ack_every in [0usize, 1, 7, 50, 100, 101] {
                for once_and_worlds in 0..4 {
                    let (once, equal_crc) = (once_and_worlds & 1 == 1, once_and_worlds & 2 == 2);
                    if once && ack_every < 2 {
                        continue;
                    }
                    let mut s = m.init_states().pop().unwrap();
                    s.ticks_left = 255;
                    s.acks_left = 255;
                    let mut script: Vec<Act> = Vec::new();
                    for i in 0..n {
                        script.push(Act::Send(if equal_crc { [6u8, 7, 8][(i + i / 5) % 3] } else { [1u8, 2, 6, 7][(i * 7 + i / 3) % 4] }));
                        // all parts of this tick, in order
                        script.push(Act::DeliverMsg(255));
                        let ack_now = ack_every != 0 && if once { i + 1 == ack_every } else { (i + 1) % ack_every == 0 };
                        if ack_now {
                            script.push(Act::AckEmit);
                            script.push(Act::DeliverAck(0));
                        }
                    }
                    for a in script {
                        let acts: Vec<Act> = if a == Act::DeliverMsg(255) { (0..s.msgs.len()).map(|_| Act::DeliverMsg(0)).collect() } else { vec![a] };
                        for a in acts {
                            long_total += 1;
                            match m.apply(&s, a) {
                                Some(n) => s = n,
                                None => continue 'outer, // known finding prunes the branch
                            }
                            if s.bad {
                                break 'outer;
                            }
                        }
                    }
                    // (a receiver that has dropped the base the sender still uses reports an error - allowed;
                    // how many were accepted is only recorded)
                    run.class(&format!("long-history:{}:{}", if ack_every == 0 { "never-acked" } else if once { "acked-once" } else { "acked-regularly" }, if s.accepted.len() == n { "all-accepted" } else { "some-refused" }), || json!({"snapshots": n, "ack_every": ack_every, "accepted": s.accepted.len()}));
                }
            }
        }
        total_trans += long_total;
        run.set("long_history_steps", json!(long_total));
    }
    run.set("states", json!(total_states));
    run.set("transitions", json!(total_trans));
    run.set("traces_validated_against_impl", json!(validated));
    run.set("configurations", json!(cfg_json));
    if samples_json.is_empty() {
        samples_json.push(json!("no sampled path"));
    }
    run.set("samples", json!(samples_json));
    run.add_evals(total_trans);
    run.assume("the state key of the real Storage/Manager objects is the hash of the complete history of operations applied to each (they are deterministic functions of it); states are therefore merged only when both objects have identical histories and the channels/budgets agree - an over-fine key, which costs states but cannot hide any");
    run.assume("the sender follows the storage API exactly as server/src/main.rs does (new_builder, add, finish, add_snap, Delta::write, delta_chunks); the receiver acknowledges ack_tick() or -1; in the reset configurations either side may call its reset() (Storage::reset on the sender, Manager::reset on the receiver - what the downloader does on a map change) at any point after the first snapshot; in the empty-when-unchanged configurations a delta without deletions and updates is announced with the data-less SnapEmpty message");
    run.finish(
        "explicit-state exploration (stateright, breadth-first at the quick tier, depth-first at the thorough tier) of a real sender Storage and a real receiver Manager joined by lossy/duplicating/reordering channels for snapshot messages and acknowledgements; worlds include ordinal items, two UUID types of different sizes a 300-word item that forces a multi-part transfer, three different worlds with equal checksums, and three worlds whose ids, type ids and values sit on both sides of every length boundary of the variable-length integer code; whenever the receiver accepts a tick its snapshot equals the sender's through items() and item(type,id); on error the acknowledged tick does not move to that tick; nothing panics; configurations in which either side calls reset() in the middle of the history; plus linear histories of 101..250 snapshots delivered in order with acknowledgements never / regularly / once (the stores on both sides hold 100 snapshots)",
        true,
    );
}
