//! C12: multi-part snapshot transfer reassembles exactly once.

use libtw2_gamenet_snap::SnapMsg;
use libtw2_snapshot::receiver::Warning;
use libtw2_snapshot::snap::delta_chunks;
use libtw2_snapshot::DeltaReceiver;
use std::sync::Arc;
use vp_core::rayon::prelude::*;
use vp_core::serde_json::json;
use vp_core::LocalClasses;
use vp_core::Run;
use vp_core::Tier;

#[derive(Clone)]
struct Transfer {
    tick: i32,
    base: i32,
    crc: i32,
    data: Vec<u8>,
}

impl Transfer {
    fn new(tick: i32, base: i32, len: usize, salt: u64) -> Transfer {
        Transfer { tick, base, crc: (if (tick ^ len as i32) & 1 == 0 { 0x1234_5678 } else { 0x9234_5678u32 as i32 }) ^ tick ^ (len as i32), data: vp_core::lcg_bytes(salt ^ len as u64, len) }
    }
    fn msgs(&self) -> Vec<SnapMsg<'_>> {
        delta_chunks(self.tick, self.base, &self.data, self.crc).collect()
    }
}

/// Reference receiver: the set of part numbers seen for the newest tick.
struct RefReceiver {
    newest: Option<i32>,
    parts: std::collections::BTreeSet<usize>,
    done: bool,
}

#[derive(Debug, PartialEq)]
enum Expect {
    HandOut,
    Nothing,
}

impl RefReceiver {
    fn new() -> RefReceiver {
        RefReceiver { newest: None, parts: Default::default(), done: false }
    }
    fn feed(&mut self, tick: i32, part: usize, nparts: usize) -> Expect {
        match self.newest {
            Some(t) if tick < t => return Expect::Nothing,
            Some(t) if tick == t => {}
            _ => {
                self.newest = Some(tick);
                self.parts.clear();
                self.done = false;
            }
        }
        if self.done || !self.parts.insert(part) {
            return Expect::Nothing;
        }
        if self.parts.len() == nparts.max(1) {
            self.done = true;
            Expect::HandOut
        } else {
            Expect::Nothing
        }
    }
}

/// One message of the alphabet: (transfer index, part index)
type Sym = (usize, usize);

fn run_sequence(transfers: &[Transfer], seq: &[Sym]) -> Result<String, String> {
    let all: Vec<Vec<SnapMsg>> = transfers.iter().map(|t| t.msgs()).collect();
    let mut r = DeltaReceiver::new();
    let mut m = RefReceiver::new();
    let mut handed = vec![0usize; transfers.len()];
    let mut class = String::new();
    // Messages that belong to no transfer at all: part numbers out of range or an impossible
    // part count (transfer index 5). They must be refused and never hand anything out; one that
    // names a tick older than the newest seen must change nothing at all; after one for the
    // current or a newer tick the check no longer insists that the interrupted transfer
    // completes (the property says nothing about it) - but whatever is handed out must still be
    // the original data, tick, base tick and checksum, at most once.
    let cur = &transfers[0];
    let garbage_data = [1u8, 2, 3];
    let g = |tick: i32, num_parts: i32, part: i32| libtw2_gamenet_snap::Snap { tick, delta_tick: 7, num_parts, part, crc: cur.crc.wrapping_add(1), data: &garbage_data };
    let ncur = all[0].len() as i32;
    let garbage = [g(cur.tick, ncur + 1, ncur + 1), g(cur.tick, ncur.max(2), -1), g(transfers.get(3).unwrap_or(cur).tick, 2, 2), g(transfers.get(1).unwrap_or(cur).tick, 2, 5), g(cur.tick, 33, 0), g(cur.tick, -1, 0)];
    let mut lenient = false;
    for &(ti, pi) in seq {
        if ti == 5 {
            let gm = garbage[pi];
            let mut w: Vec<Warning> = Vec::new();
            match r.snap(&mut w, gm) {
                Err(_) => {}
                Ok(x) => return Err(format!("a message with part {} of {} was not refused ({})", gm.part, gm.num_parts, if x.is_some() { "data handed out" } else { "accepted" })),
            }
            if m.newest.map(|n| gm.tick >= n).unwrap_or(true) {
                lenient = true;
            }
            class.push('g');
            continue;
        }
        let t = &transfers[ti];
        let msg = all[ti][pi];
        let nparts = all[ti].len();
        let mut w: Vec<Warning> = Vec::new();
        let got = match msg {
            SnapMsg::Snap(s) => r.snap(&mut w, s),
            SnapMsg::SnapSingle(s) => r.snap_single(&mut w, s),
            SnapMsg::SnapEmpty(s) => r.snap_empty(&mut w, s),
        };
        let exp = m.feed(t.tick, pi, nparts);
        if !w.is_empty() && !lenient {
            return Err(format!("warnings {:?} for a consistent transfer (tick {} base {} part {}/{})", w, t.tick, t.base, pi, nparts));
        }
        match (got, exp) {
            (Ok(Some(rd)), Expect::HandOut) => {
                let data_ok = match rd.data_and_crc {
                    Some((d, crc)) => d == &t.data[..] && crc == t.crc,
                    None => t.data.is_empty(),
                };
                if !data_ok || rd.tick != t.tick || rd.delta_tick != t.base {
                    return Err(format!(
                        "handed out tick {} base {} ({} bytes), expected tick {} base {} ({} bytes)",
                        rd.tick, rd.delta_tick, rd.data_and_crc.map(|d| d.0.len()).unwrap_or(0), t.tick, t.base, t.data.len()
                    ));
                }
                handed[ti] += 1;
                class.push('H');
            }
            (Ok(Some(rd)), Expect::Nothing) => {
                return Err(format!("data for tick {} handed out although the reference receiver expects nothing (message tick {} part {})", rd.tick, t.tick, pi));
            }
            (Ok(None), Expect::HandOut) | (Err(_), Expect::HandOut) if lenient => class.push('?'),
            (Ok(None), Expect::HandOut) | (Err(_), Expect::HandOut) => {
                return Err(format!("all parts of tick {} were received but nothing was handed out", t.tick));
            }
            (Ok(None), Expect::Nothing) => class.push('.'),
            (Err(_), Expect::Nothing) => class.push('e'),
        }
    }
    if handed.iter().any(|&h| h > 1) {
        return Err("data handed out more than once for a tick".into());
    }
    Ok(class)
}

fn main() {
    let run = Run::new("C12", "exploration");
    let thorough = run.tier == Tier::Thorough;
    let maxn = if thorough { 6 } else { 5 };
    let ticks: Vec<(i32, i32)> = vec![(4, 1), (10, 3), (3, -1), (1000, 0), (7, 6), (i32::MAX - 2, i32::MAX - 4)];
    let mut value_ticks: Vec<(i32, i32)> = vec![(3, 2), (i32::MAX - 2, 0), (i32::MAX - 2, 1), (i32::MAX - 2, i32::MAX - 3), (0x7fff_0000, 0x7ffe_ffff), (65536, 65535), (65538, 2), (256, 255), (255, -1), (128, 1), (127, -1)];
    for k in [6u32, 13, 20, 27, 30] {
        for d in [-1i32, 0, 1] {
            let t = (1i32 << k) + d;
            value_ticks.push((t, -1));
            value_ticks.push((t, t - 1));
            value_ticks.push((t, t - (1 << (k - 1))));
            value_ticks.push((t + (1 << (k - 2)), d + 4));
        }
    }
    // --- exhaustive part: n <= maxn parts, all sequences of length <= n+2
    let mut jobs: Vec<(usize, (i32, i32), usize, Option<[i32; 4]>)> = Vec::new();
    for n in 0..=maxn {
        let lens: Vec<usize> = match n {
            0 => vec![0],
            1 => vec![1, 899, 900],
            _ => vec![900 * (n - 1) + 1, 900 * n - 1, 900 * n],
        };
        for &tb in &ticks {
            for &l in &lens {
                jobs.push((n, tb, l, None));
            }
        }
        // tick / base values on both sides of every length boundary of the variable-length
        // integer code, bases far behind and right behind, the largest ticks (small part counts)
        if n <= 3 {
            for &tb in &value_ticks {
                jobs.push((n, tb, lens[lens.len() - 1], None));
                jobs.push((n, tb, lens[0], None));
            }
            // older and newer ticks that are far away: more than 2^31 below / above the current
            // one (negative ticks are legal values of the field), next to the ends of the range
            for (tb, far) in [
                ((1_500_000_000, 1_499_999_990), [-1_500_000_000, -5, 1_500_000_001, i32::MAX - 1]),
                ((-1_500_000_000, -1_500_000_001), [i32::MIN + 1, -1_500_000_005, 1_500_000_000, -3]),
                ((5, -1), [i32::MIN + 1, -1, i32::MAX - 1, 6]),
                ((-5, -6), [-2_000_000_000, -6, 2_000_000_000, -4]),
                ((i32::MAX - 10, i32::MAX - 11), [-50, i32::MIN + 2, i32::MAX - 9, i32::MAX - 1]),
            ] {
                jobs.push((n, tb, lens[lens.len() - 1], Some(far)));
            }
        }
    }
    for (n, (tick, base), len, far) in jobs {
        let cur = Transfer::new(tick, base, len, 1);
        let (older2, older1, newer2, newer1) = match far {
            None => (Transfer::new(tick - 1, base.min(tick - 2), 1000, 2), Transfer::new(tick - 2, base.min(tick - 3), 10, 3), Transfer::new(tick + 1, tick, 1500, 4), Transfer::new(tick + 2, base, 20, 5)),
            // (bases right behind, so that the sender's own subtraction stays in range)
            Some([o2, o1, n2, n1]) => (Transfer::new(o2, o2 - 1, 1000, 2), Transfer::new(o1, o1 - 1, 10, 3), Transfer::new(n2, n2 - 1, 1500, 4), Transfer::new(n1, n1 - 1, 20, 5)),
        };
        let transfers = vec![cur, older2, older1, newer2, newer1];
        let nparts = transfers[0].msgs().len();
        assert_eq!(nparts, n.max(1));
        let mut alphabet: Vec<Sym> = (0..nparts).map(|p| (0, p)).collect();
        alphabet.extend_from_slice(&[(1, 0), (2, 0), (3, 0), (4, 0)]);
        if nparts <= 3 && far.is_none() {
            alphabet.extend((0..6).map(|k| (5usize, k)));
        }
        let a = alphabet.len();
        let maxlen = nparts + 2;
        let total: usize = (1..=maxlen).map(|d| a.pow(d as u32)).sum();
        let lc = (0..total)
            .into_par_iter()
            .fold(LocalClasses::new, |mut lc, idx| {
                let mut i = idx;
                let mut d = 1;
                while i >= a.pow(d as u32) {
                    i -= a.pow(d as u32);
                    d += 1;
                }
                let mut seq: Vec<Sym> = Vec::with_capacity(d);
                for _ in 0..d {
                    seq.push(alphabet[i % a]);
                    i /= a;
                }
                lc.eval();
                let case = || json!({"tick": tick, "base_tick": base, "data_len": len, "parts": nparts, "sequence_transfer_part": seq, "transfers": ["current", "older 2-part", "older single", "newer 2-part", "newer single", "messages with impossible part numbers / counts"], "ticks_of_the_other_transfers": far});
                match vp_core::catch(|| run_sequence(&transfers, &seq)) {
                    Ok(Ok(c)) => {
                        let h = c.matches('H').count();
                        lc.class(&format!("n{}:handouts{}:errors{}", nparts, h, c.contains('e') as u8), case)
                    }
                    Ok(Err(msg)) => {
                        run.violation(&format!("c12:{}", msg.split(|c: char| c.is_ascii_digit() || c == '[').next().unwrap_or("").trim()), &msg, case());
                    }
                    Err(p) => {
                        run.violation(&format!("c12:{}", vp_core::panic_sig(&p)), &p, case());
                    }
                }
                lc
            })
            .reduce(LocalClasses::new, |a, b| a.merge(b));
        run.merge_classes(lc);
    }
    // --- listed permutation families for up to 32 parts (not exhaustive)
    let mut fam: Vec<(usize, (i32, i32), Vec<usize>, String)> = Vec::new();
    for n in 2..=32usize {
        let id: Vec<usize> = (0..n).collect();
        let mut perms: Vec<(Vec<usize>, String)> = vec![(id.clone(), "identity".into()), (id.iter().rev().cloned().collect(), "reverse".into())];
        for r in 1..n {
            perms.push((id.iter().map(|x| (x + r) % n).collect(), format!("rotation{}", r)));
        }
        let mut eo: Vec<usize> = id.iter().filter(|x| *x % 2 == 0).cloned().collect();
        eo.extend(id.iter().filter(|x| *x % 2 == 1));
        perms.push((eo, "evens-then-odds".into()));
        for (p, name) in perms {
            fam.push((n, ticks[n % ticks.len()], p.clone(), name.clone()));
            if thorough || n <= 8 || name == "reverse" {
                for dup in 0..n {
                    // duplicate part `dup` right after its first occurrence
                    let mut q = Vec::new();
                    for &x in &p {
                        q.push(x);
                        if x == dup {
                            q.push(x);
                        }
                    }
                    fam.push((n, ticks[(n + dup) % ticks.len()], q, format!("{}+dup{}", name, dup)));
                }
            }
        }
    }
    let lc = fam
        .par_iter()
        .fold(LocalClasses::new, |mut lc, (n, (tick, base), order, name)| {
            lc.eval();
            let len = 900 * (n - 1) + 1 + (n * 37) % 899;
            let transfers = vec![Transfer::new(*tick, *base, len, 9)];
            let seq: Vec<Sym> = order.iter().map(|&p| (0, p)).collect();
            let case = || json!({"family": name, "parts": n, "tick": tick, "base_tick": base, "order": order});
            match vp_core::catch(|| run_sequence(&transfers, &seq)) {
                Ok(Ok(c)) => {
                    if c.matches('H').count() != 1 {
                        run.violation("c12:family-not-exactly-once", &format!("{} hand-outs", c.matches('H').count()), case());
                    } else {
                        lc.class(&format!("family:{}", name.split(|c: char| c.is_ascii_digit()).next().unwrap_or("")), case);
                    }
                }
                Ok(Err(msg)) => {
                    run.violation(&format!("c12:{}", msg.split(|c: char| c.is_ascii_digit() || c == '[').next().unwrap_or("").trim()), &msg, case());
                }
                Err(p) => {
                    run.violation(&format!("c12:{}", vp_core::panic_sig(&p)), &p, case());
                }
            }
            lc
        })
        .reduce(LocalClasses::new, |a, b| a.merge(b));
    run.merge_classes(lc);
    run.set("exhaustive_up_to_parts", json!(maxn));
    run.set("listed_families_up_to_parts", json!(32));
    run.assume("messages are produced by the real sender (snap::delta_chunks); tick/base pairs are those for which the sender's own subtraction does not overflow");
    run.assume("for more than the exhaustive part count only listed permutation families (identity, reverse, every rotation, evens-then-odds, each with single duplications) are run - labelled as families, not exhaustive");
    run.finish(
        &format!("for every part count n <= {} (data lengths on both sides of every 900-byte boundary, 6 tick/base pairs; for n <= 3 additionally 71 tick/base pairs on both sides of every integer-length boundary, with far and near bases, positive and negative checksums, and 5 settings in which the older / newer ticks are more than 2^31 away from the current one, negative ticks included): all sequences of length <= n+2 over the alphabet {{each part of the current tick, a part of an older 2-part transfer, an older single-part message, a part of a newer 2-part transfer, a newer single-part message; for n <= 3 also six messages with impossible part numbers or part counts for the current, a newer and an older tick, which must be refused, never hand out anything and - for an older tick - change nothing}} against a reference receiver (set of part numbers for the newest tick): hand-out exactly when complete, exactly once, with original data/tick/absolute base/crc, zero warnings; listed permutation families up to 32 parts", maxn),
        true,
    );
}
