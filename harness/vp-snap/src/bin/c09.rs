//! C09: applying a snapshot delta reproduces the target snapshot; agreement
//! with the bundled DDNet reference. All ordered pairs over small universes.

use libtw2_packer::IntUnpacker;
use libtw2_packer::Unpacker;
use libtw2_snapshot::format::Warning;
use libtw2_snapshot::snap::Delta;
use libtw2_snapshot::snap::RawSnap;
use libtw2_snapshot_reference::snap as rsnap;
use std::sync::Arc;
use vp_core::rayon::prelude::*;
use vp_core::serde_json::json;
use vp_core::LocalClasses;
use vp_core::Run;
use vp_snap::build_raw;
use vp_snap::obj_size;
use vp_snap::raw_items;
use vp_snap::write_delta_bytes;

/// A universe: keys, and per key the data vectors it may carry.
struct Universe {
    name: &'static str,
    keys: Vec<(u16, u16)>,
    vectors: Vec<Vec<Vec<i32>>>,
    reference: bool,
    /// the pre-agreed sizes both ends use for the wire form (None = explicit size on the wire)
    sizes: fn(u16) -> Option<u32>,
}

/// Pre-agreed sizes for every type of the `fixed` universes, on both sides of 0x4000 and of the
/// signed-key boundary 0x8000 (lengths as built by `universe_fixed`: type 1 -> 2 words, the key at
/// position k otherwise [1,3,2,1,3][k % 5]).
fn sizes_all_fixed5(t: u16) -> Option<u32> {
    match t {
        1 => Some(2),
        2 => Some(3),
        0x7fff => Some(2),
        0x8000 => Some(1),
        0xffff => Some(3),
        _ => None,
    }
}

const VALS: [i32; 6] = [0, 1, -1, i32::MIN, i32::MAX, 0x12345678];

fn vectors_for(t: u16, n: usize) -> Vec<Vec<i32>> {
    if t == 1 {
        // pre-agreed size: always two words
        vec![vec![0, 0], vec![1, -1], vec![i32::MIN, i32::MAX], vec![0x12345678, 1]][..n].to_vec()
    } else {
        vec![vec![], vec![VALS[1]], vec![VALS[3], VALS[4], VALS[2]], vec![VALS[5], 0]][..n].to_vec()
    }
}

/// Universe in which every key has a fixed item length (so every ordered
/// pair is expressible as a delta).
fn universe_fixed(name: &'static str, keys: &[(u16, u16)], n: usize, reference: bool) -> Universe {
    let vectors = keys
        .iter()
        .enumerate()
        .map(|(ki, k)| {
            let len = if k.0 == 1 { 2 } else { [1, 3, 2, 1, 3][ki % 5] };
            let mut vs: Vec<Vec<i32>> = (0..n).map(|v| (0..len).map(|w| VALS[(v + 2 * w + ki) % 6]).collect()).collect();
            vs.sort();
            vs.dedup();
            vs
        })
        .collect();
    Universe { name, keys: keys.to_vec(), vectors, reference, sizes: obj_size }
}

fn universe(name: &'static str, keys: &[(u16, u16)], n: usize, reference: bool) -> Universe {
    Universe {
        name,
        keys: keys.to_vec(),
        vectors: keys.iter().map(|k| vectors_for(k.0, n)).collect(),
        reference,
        sizes: obj_size,
    }
}

impl Universe {
    fn count(&self) -> usize {
        self.vectors.iter().map(|v| v.len() + 1).product()
    }
    fn items(&self, mut idx: usize) -> Vec<(u16, u16, Vec<i32>)> {
        let mut out = Vec::new();
        for (k, vs) in self.keys.iter().zip(&self.vectors) {
            let c = idx % (vs.len() + 1);
            idx /= vs.len() + 1;
            if c > 0 {
                out.push((k.0, k.1, vs[c - 1].clone()));
            }
        }
        // ascending unsigned key order (the order the wire format uses)
        out.sort_by_key(|x| ((x.0 as u32) << 16) | x.1 as u32);
        out
    }
}

fn ref_build(items: &[(u16, u16, Vec<i32>)]) -> rsnap::RawSnap {
    let mut b = rsnap::RawBuilder::new();
    for (t, id, d) in items {
        b.add_item(*t, *id, d).unwrap();
    }
    b.finish()
}

fn check_pair(u: &Universe, ia: usize, ib: usize, snaps: &[RawSnap], snaps_b: &[RawSnap], order: &str) -> Result<String, String> {
    let a = &snaps[ia];
    let b = &snaps_b[ib];
    let want = raw_items(b);
    let eq = |c: &RawSnap, route: &str, w: &Vec<Warning>| -> Result<(), String> {
        if raw_items(c) != want {
            return Err(format!("{}: applying the delta gives {:?}, expected {:?}", route, raw_items(c), want));
        }
        if c.crc() != b.crc() {
            return Err(format!("{}: checksum {} != {}", route, c.crc(), b.crc()));
        }
        if !w.is_empty() {
            return Err(format!("{}: warnings {:?}", route, w));
        }
        Ok(())
    };
    // every object is reused: the delta object held the opposite delta before, the objects the
    // wire forms are read into hold that one too, the snapshot the delta is applied into holds `a`
    let mut d = Delta::new();
    d.create_raw(b, a);
    let dirty = d.clone();
    d.create_raw(a, b);
    let mut c = a.clone();
    let mut w: Vec<Warning> = Vec::new();
    c.read_with_delta(&mut w, a, &d).map_err(|e| format!("direct apply fails: {:?}", e))?;
    eq(&c, "direct", &w)?;
    // through bytes
    let sizes = u.sizes;
    let bytes = {
        let mut buf: Vec<u8> = Vec::with_capacity(1 << 16);
        libtw2_packer::with_packer(&mut buf, |p| d.write(sizes, p).map(|b| b.len())).map_err(|_| "delta does not fit 64 KiB".to_string())?;
        buf
    };
    let mut d2 = dirty.clone();
    d2.read(&mut w, sizes, &mut Unpacker::new(&bytes)).map_err(|e| format!("reading the written delta fails: {:?}", e))?;
    c.read_with_delta(&mut w, a, &d2).map_err(|e| format!("apply after bytes fails: {:?}", e))?;
    eq(&c, "via bytes", &w)?;
    // through ints
    let mut ints = vec![0i32; 4096];
    let n = d.write_to_ints(sizes, &mut ints).map_err(|_| "delta does not fit 4096 ints".to_string())?.len();
    let mut d3 = dirty.clone();
    d3.read_from_ints(&mut w, sizes, &mut IntUnpacker::new(&ints[..n])).map_err(|e| format!("reading the int delta fails: {:?}", e))?;
    c.read_with_delta(&mut w, a, &d3).map_err(|e| format!("apply after ints fails: {:?}", e))?;
    eq(&c, "via ints", &w)?;
    if !order.is_empty() {
        // same snapshots, items handed to the builder in another order: only the
        // create/apply/wire oracles (the reference fixes the ascending order)
        return Ok(format!("{}:order-{}", u.name, order));
    }
    let mut class = format!("{}:deleted{}:updated{}", u.name, (ia != ib && raw_items(a).iter().any(|x| !want.iter().any(|y| y.0 == x.0 && y.1 == x.1))) as u8, want.len().min(3));
    if u.reference {
        let ia_items = u.items(ia);
        let ib_items = u.items(ib);
        let ra = ref_build(&ia_items);
        let rb = ref_build(&ib_items);
        let mut rd = rsnap::Delta::new();
        let mut out = vec![0i32; 16384];
        match rd.create_raw_and_write_to_ints(&ra, &rb, obj_size, &mut out) {
            Ok(rints) => {
                let mut d4 = dirty.clone();
                // the reference reports "nothing changed" as zero integers; on the wire that
                // is the SnapEmpty message, i.e. the empty delta
                if !rints.is_empty() {
                    d4.read_from_ints(&mut w, obj_size, &mut IntUnpacker::new(rints)).map_err(|e| format!("reading the reference delta fails: {:?} ({:?})", e, rints))?;
                } else {
                    d4 = Delta::new();
                    if raw_items(a) != want {
                        return Err("reference delta is empty although the snapshots differ".into());
                    }
                }
                c.read_with_delta(&mut w, a, &d4).map_err(|e| format!("applying the reference delta fails: {:?}", e))?;
                eq(&c, "reference delta", &w)?;
                class.push_str(":ref-delta");
            }
            Err(_) => class.push_str(":ref-delta-unavailable"),
        }
    }
    Ok(class)
}

fn run_universe(run: &Arc<Run>, u: &Universe) {
    let n = u.count();
    let snaps: Vec<RawSnap> = (0..n).map(|i| build_raw(&u.items(i))).collect();
    // serialization equals the reference builder's integers
    if u.reference {
        for i in 0..n {
            run.add_evals(1);
            let items = u.items(i);
            let mut rs = ref_build(&items);
            let mut buf = Vec::new();
            let mut out_r = vec![0i32; 16384];
            let mut out_o = vec![0i32; 16384];
            let r = rs.write_to_ints(&mut buf, &mut out_r).map(|x| x.to_vec());
            let o = snaps[i].write_to_ints(&mut buf, &mut out_o).map(|x| x.to_vec());
            match (r, o) {
                (Ok(r), Ok(o)) if r == o => run.class(&format!("{}:serialize=reference", u.name), || json!({"items": items, "ints": o})),
                (r, o) => {
                    run.violation("c09:serialization-differs-from-reference", &format!("items {:?}: ours {:?}, reference {:?}", items, o, r), json!({"universe": u.name, "items": items}));
                }
            }
        }
    }
    let lc = (0..n * n)
        .into_par_iter()
        .fold(LocalClasses::new, |mut lc, p| {
            let (ia, ib) = (p / n, p % n);
            lc.eval();
            match vp_core::catch(|| check_pair(u, ia, ib, &snaps, &snaps, "")) {
                Ok(Ok(c)) => lc.class(&c, || json!({"from": u.items(ia), "to": u.items(ib)})),
                Ok(Err(d)) => {
                    let sig = format!("c09:{}", d.split(':').next().unwrap_or(""));
                    run.violation(&sig, &d, json!({"universe": u.name, "from": u.items(ia), "to": u.items(ib)}));
                }
                Err(pn) => {
                    run.violation(&format!("c09:{}", vp_core::panic_sig(&pn)), &pn, json!({"universe": u.name, "from": u.items(ia), "to": u.items(ib)}));
                }
            }
            lc
        })
        .reduce(LocalClasses::new, |a, b| a.merge(b));
    run.merge_classes(lc);
    // the same pairs with the items handed to the builder in other orders (descending keys;
    // rotated by one): the stored layout differs, the snapshot as a value does not
    let reorder = |i: usize, how: usize| -> Vec<(u16, u16, Vec<i32>)> {
        let mut it = u.items(i);
        if how == 0 {
            it.reverse();
        } else if !it.is_empty() {
            it.rotate_left(1);
        }
        it
    };
    let desc: Vec<RawSnap> = (0..n).map(|i| build_raw(&reorder(i, 0))).collect();
    let rot: Vec<RawSnap> = (0..n).map(|i| build_raw(&reorder(i, 1))).collect();
    let combos: [(&[RawSnap], &[RawSnap], &str); 4] = [(&desc, &snaps, "desc-asc"), (&snaps, &desc, "asc-desc"), (&desc, &rot, "desc-rot"), (&rot, &desc, "rot-desc")];
    for (sa, sb, order) in combos {
        let lc = (0..n * n)
            .into_par_iter()
            .fold(LocalClasses::new, |mut lc, p| {
                let (ia, ib) = (p / n, p % n);
                lc.eval();
                match vp_core::catch(|| check_pair(u, ia, ib, sa, sb, order)) {
                    Ok(Ok(c)) => lc.class(&c, || json!({"from": u.items(ia), "to": u.items(ib)})),
                    Ok(Err(d)) => {
                        let sig = format!("c09:{}", d.split(':').next().unwrap_or(""));
                        run.violation(&sig, &d, json!({"universe": u.name, "insertion_order": order, "from": u.items(ia), "to": u.items(ib)}));
                    }
                    Err(pn) => {
                        run.violation(&format!("c09:{}", vp_core::panic_sig(&pn)), &pn, json!({"universe": u.name, "insertion_order": order, "from": u.items(ia), "to": u.items(ib)}));
                    }
                }
                lc
            })
            .reduce(LocalClasses::new, |a, b| a.merge(b));
        run.merge_classes(lc);
    }
}

/// Linear families at the limits: many items, large items.
fn limits(run: &Arc<Run>) {
    let mk = |n: usize, words: usize, shift: i32| -> Vec<(u16, u16, Vec<i32>)> {
        (0..n).map(|i| (2 + (i % 3) as u16, i as u16, (0..words).map(|w| (i * 31 + w) as i32 ^ shift).collect())).collect()
    };
    let cases: Vec<(&str, Vec<(u16, u16, Vec<i32>)>, Vec<(u16, u16, Vec<i32>)>)> = vec![
        ("1024-items-changed", mk(1024, 1, 0), mk(1024, 1, 0x55)),
        ("1024-items-to-empty", mk(1024, 1, 0), vec![]),
        ("empty-to-1024-items", vec![], mk(1024, 1, 0)),
        ("1023-vs-1024", mk(1023, 2, 0), mk(1024, 2, 1)),
        ("one-huge-item", vec![(2, 0, (0..16000).map(|x| x as i32).collect())], vec![(2, 0, (0..16000).map(|x| (x as i32).wrapping_mul(7919)).collect())]),
        ("near-64KiB", mk(500, 30, 0), mk(500, 30, -1)),
    ];
    // how many keys the two snapshots share is a dimension of its own: a delta lists the keys only
    // the old snapshot has plus every item of the new one, so its header counts add up to as much
    // as 2048 for two full snapshots without a common key
    let mk_from = |first: usize, n: usize, shift: i32| -> Vec<(u16, u16, Vec<i32>)> { (first..first + n).map(|i| (2 + (i % 3) as u16, i as u16, vec![(i * 31) as i32 ^ shift])).collect() };
    let mut cases: Vec<(String, Vec<(u16, u16, Vec<i32>)>, Vec<(u16, u16, Vec<i32>)>)> = cases.into_iter().map(|(n, a, b)| (n.to_string(), a, b)).collect();
    let counts = [0usize, 1, 511, 512, 513, 600, 1023, 1024];
    for &na in &counts {
        for &nb in &counts {
            let m = na.min(nb);
            for shared in [0, m / 2, m] {
                if shared > 0 && shared == m && m == 0 {
                    continue;
                }
                // the new snapshot starts `na - shared` keys into the old one
                cases.push((format!("keys:{}-to-{}-sharing-{}", na, nb, shared), mk_from(0, na, 0), mk_from(na - shared, nb, 0x33)));
            }
        }
    }
    for (name, a, b) in cases {
        let name = &name[..];
        run.add_evals(1);
        let r = vp_core::catch(|| -> Result<(), String> {
            let sa = build_raw(&a);
            let sb = build_raw(&b);
            let mut d = Delta::new();
            d.create_raw(&sa, &sb);
            let bytes = write_delta_bytes(&d);
            let mut d2 = Delta::new();
            let mut w: Vec<Warning> = Vec::new();
            d2.read(&mut w, obj_size, &mut Unpacker::new(&bytes)).map_err(|e| format!("{:?}", e))?;
            let mut c = RawSnap::empty();
            c.read_with_delta(&mut w, &sa, &d2).map_err(|e| format!("{:?}", e))?;
            if raw_items(&c) != raw_items(&sb) || c.crc() != sb.crc() || !w.is_empty() {
                return Err(format!("mismatch, warnings {:?}", w));
            }
            Ok(())
        });
        match r {
            Ok(Ok(())) => run.class(&format!("limit:{}", if name.starts_with("keys:") { "shared-key-grid" } else { name }), || json!({"family": name, "from_items": a.len(), "to_items": b.len()})),
            Ok(Err(d)) => {
                run.violation("c09:limit-family", &format!("{}: {}", name, d), json!({"family": name}));
            }
            Err(p) => {
                run.violation(&format!("c09:{}", vp_core::panic_sig(&p)), &format!("{}: {}", name, p), json!({"family": name}));
            }
        }
    }
}

/// The same property through the typed layer (`Snap`, `Builder`, UUID-identified item types):
/// all ordered pairs of a few worlds, the delta taken through both wire forms, and applied into
/// every kind of target object - a fresh one and one that held each of the other worlds before
/// (what `Storage` does with its free list). The result must enumerate, look up and sum like B.
fn snap_level(run: &Arc<Run>) {
    use libtw2_gamenet_common::snap_obj::TypeId;
    use libtw2_snapshot::snap::Builder;
    use libtw2_snapshot::Snap;
    let u1 = uuid::Uuid::from_bytes([0x11; 16]);
    let u2 = uuid::Uuid::from_bytes([0x22; 16]);
    type World = Vec<(TypeId, u16, Vec<i32>)>;
    // (all UUID-typed items have one word, so that equal raw keys never differ in size: see the
    // known finding about Delta::create)
    let worlds: Vec<World> = vec![
        vec![],
        vec![(TypeId::Ordinal(1), 0, vec![5, 6]), (TypeId::Ordinal(2), 9, vec![4])],
        vec![(TypeId::Uuid(u1), 3, vec![1]), (TypeId::Ordinal(1), 0, vec![5, 7])],
        vec![(TypeId::Uuid(u2), 4, vec![2]), (TypeId::Uuid(u1), 5, vec![3])],
        vec![(TypeId::Ordinal(3), 7, vec![])],
        vec![(TypeId::Uuid(u2), 6, vec![9]), (TypeId::Uuid(u1), 3, vec![1])],
        vec![(TypeId::Ordinal(1), 0, vec![5, 6])],
    ];
    let build = |w: &World| -> Snap {
        let mut b = Builder::new();
        for (t, id, d) in w {
            b.add_item(*t, *id, d).expect("world fits");
        }
        b.finish()
    };
    let snaps: Vec<Snap> = worlds.iter().map(build).collect();
    let view = |s: &Snap| -> Vec<(String, u16, Vec<i32>)> {
        let mut v: Vec<_> = s.items().map(|i| (format!("{:?}", i.type_id), i.id, i.data.to_vec())).collect();
        v.sort();
        v
    };
    for ia in 0..worlds.len() {
        for ib in 0..worlds.len() {
            for it in 0..=worlds.len() {
                for route in 0..3 {
                    run.add_evals(1);
                    let route_name = ["direct", "bytes", "ints"][route];
                    let case = || json!({"from_world": ia, "to_world": ib, "target_held_world": if it == worlds.len() { json!("fresh") } else { json!(it) }, "route": route_name, "worlds": "see c09.rs snap_level()"});
                    let r = vp_core::catch(|| -> Result<(), String> {
                        let (a, b) = (&snaps[ia], &snaps[ib]);
                        let mut d = Delta::new();
                        d.create(b, a);
                        d.create(a, b);
                        let mut w: Vec<Warning> = Vec::new();
                        let d = match route {
                            0 => d,
                            1 => {
                                let bytes = {
                                    let mut buf: Vec<u8> = Vec::with_capacity(1 << 16);
                                    libtw2_packer::with_packer(&mut buf, |p| d.write(obj_size, p).map(|b| b.len())).map_err(|_| "delta does not fit".to_string())?;
                                    buf
                                };
                                let mut d2 = Delta::new();
                                d2.read(&mut w, obj_size, &mut Unpacker::new(&bytes)).map_err(|e| format!("reading the written delta fails: {:?}", e))?;
                                d2
                            }
                            _ => {
                                let mut ints = vec![0i32; 4096];
                                let n = d.write_to_ints(obj_size, &mut ints).map_err(|_| "delta does not fit".to_string())?.len();
                                let mut d3 = Delta::new();
                                d3.read_from_ints(&mut w, obj_size, &mut IntUnpacker::new(&ints[..n])).map_err(|e| format!("reading the int delta fails: {:?}", e))?;
                                d3
                            }
                        };
                        let mut target = if it == worlds.len() { Snap::empty() } else { snaps[it].clone() };
                        target.read_with_delta(&mut w, a, &d).map_err(|e| format!("apply fails: {:?}", e))?;
                        if !w.is_empty() {
                            return Err(format!("warnings {:?}", w));
                        }
                        let want = view(b);
                        if target.items().len() != want.len() {
                            return Err(format!("items().len() is {}, the target snapshot has {} items", target.items().len(), want.len()));
                        }
                        if view(&target) != want {
                            return Err(format!("applying the delta gives {:?}, expected {:?}", view(&target), want));
                        }
                        for (t, id, data) in &worlds[ib] {
                            if target.item(*t, *id) != Some(&data[..]) {
                                return Err(format!("item({:?}, {}) of the result is {:?}", t, id, target.item(*t, *id)));
                            }
                        }
                        if target.crc() != b.crc() {
                            return Err(format!("checksum {} != {}", target.crc(), b.crc()));
                        }
                        Ok(())
                    });
                    match r {
                        Ok(Ok(())) => run.class(&format!("typed:{}:{}", if it == worlds.len() { "fresh-target" } else { "reused-target" }, ["direct", "bytes", "ints"][route]), case),
                        Ok(Err(d)) => {
                            run.violation(&format!("c09:typed:{}", d.split(|c: char| c.is_ascii_digit() || c == '[' || c == '(').next().unwrap_or("").trim()), &d, case());
                        }
                        Err(p) => {
                            run.violation(&format!("c09:typed:{}", vp_core::panic_sig(&p)), &p, case());
                        }
                    }
                }
            }
        }
    }
}

fn main() {
    let run = Run::new("C09", "exploration");
    let thorough = run.tier == vp_core::Tier::Thorough;
    let us = if thorough {
        vec![
            universe_fixed("fixed-ref5", &[(1, 0), (1, 1), (2, 0), (2, 0xffff), (0x3fff, 5)], 4, true),
            universe_fixed("fixed-signed5", &[(1, 0), (2, 0), (0x7fff, 0), (0x8000, 0), (0xffff, 0xffff)], 4, false),
            Universe { sizes: sizes_all_fixed5, ..universe_fixed("fixed-signed5-all-sizes-pre-agreed", &[(1, 0), (2, 0), (0x7fff, 0), (0x8000, 0), (0xffff, 0xffff)], 3, false) },
            universe("var-ref4", &[(1, 0), (1, 1), (2, 0), (0x3fff, 5)], 4, true),
            universe("var-signed4", &[(1, 0), (0x7fff, 0), (0x8000, 0), (0xffff, 0xffff)], 4, false),
            // type 0 (the items that declare UUID types) with ids on both sides of 0x4000 / 0x8000
            universe_fixed("fixed-type-zero5", &[(0, 0), (0, 0x3fff), (0, 0x4000), (0, 0xffff), (1, 0)], 3, false),
            universe("var-type-zero4", &[(0, 1), (0, 0x4000), (0, 0x8000), (0x4000, 1)], 3, false),
        ]
    } else {
        vec![
            universe_fixed("fixed-ref5", &[(1, 0), (1, 1), (2, 0), (2, 0xffff), (0x3fff, 5)], 3, true),
            universe_fixed("fixed-signed5", &[(1, 0), (2, 0), (0x7fff, 0), (0x8000, 0), (0xffff, 0xffff)], 3, false),
            Universe { sizes: sizes_all_fixed5, ..universe_fixed("fixed-signed5-all-sizes-pre-agreed", &[(1, 0), (2, 0), (0x7fff, 0), (0x8000, 0), (0xffff, 0xffff)], 2, false) },
            universe("var-ref4", &[(1, 0), (1, 1), (2, 0), (0x3fff, 5)], 3, true),
            universe("var-signed4", &[(1, 0), (0x7fff, 0), (0x8000, 0), (0xffff, 0xffff)], 3, false),
            universe_fixed("fixed-type-zero5", &[(0, 0), (0, 0x3fff), (0, 0x4000), (0, 0xffff), (1, 0)], 2, false),
            universe("var-type-zero4", &[(0, 1), (0, 0x4000), (0, 0x8000), (0x4000, 1)], 3, false),
        ]
    };
    for u in &us {
        run_universe(&run, u);
    }
    limits(&run);
    snap_level(&run);
    run.assume("comparison with the DDNet reference is restricted to the reference's own domain (type ids <= 0x3fff, static sizes only for types < 64); outside it the reference aborts the process");
    run.assume("the comparison with the reference hands the items to both builders in ascending key order; the create/apply/wire oracles are additionally run with the items inserted in descending and rotated order");
    run.finish(
        "all ordered pairs of all snapshots over universes of 4 and 5 keys, each key absent or carrying one of 3 (quick) / 4 (thorough) data vectors (lengths 0..3, values from {0,1,-1,MIN,MAX,0x12345678}; type 1 has a pre-agreed size; one universe pre-agrees the size of every type, below and above 0x4000 and 0x8000): delta create -> apply, via bytes, via ints (every Delta / snapshot object involved is a reused one that held other content before), DDNet reference delta applied here, serialization compared with the reference builder; the same pairs with the items inserted in descending / rotated order (create -> apply, via bytes, via ints); plus the typed layer (Snap / Builder with UUID-identified types): all ordered pairs of seven worlds x three routes x target objects that are fresh or held each of the worlds before - enumeration, item count, lookup by type and id, checksum; plus limit families (1024 items, ~64 KiB) and a grid of snapshot pairs with 0..1024 items each that share none, half or all of their keys (up to 1024 deleted plus 1024 updated items in one delta)",
        true,
    );
}
