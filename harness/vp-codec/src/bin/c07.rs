//! C07: Huffman codec lossless, bounded, agrees with the bundled C++
//! reference. Bounded exhaustive enumeration of compressor and decompressor
//! inputs, output capacities and code tables.

use libtw2_huffman::DecompressionError;
use libtw2_huffman::Huffman;
use libtw2_huffman_reference::Huffman as RefHuffman;
use std::sync::Arc;
use vp_core::rayon::prelude::*;
use vp_core::serde_json::json;
use vp_core::LocalClasses;
use vp_core::Run;
use vp_core::Tier;

struct Table {
    name: String,
    h: Huffman,
    r: RefHuffman,
}
// The reference object is an immutable table after construction.
unsafe impl Sync for Table {}
unsafe impl Send for Table {}

fn content(class: usize, len: usize) -> Vec<u8> {
    match class {
        0 => vec![0; len],
        1 => (0..len).map(|i| b"abc"[i % 3]).collect(),
        2 => (0..len).map(|i| i as u8).collect(),
        _ => vp_core::lcg_bytes(0xc0ffee, len),
    }
}

fn tables(run: &Arc<Run>) -> Vec<Table> {
    let file = vp_codec::frequencies_file();
    let mut vecs: Vec<(String, [u32; 256])> = Vec::new();
    vecs.push(("shipped-frequency-file".into(), file));
    vecs.push(("uniform".into(), [1; 256]));
    vecs.push(("all-zero".into(), [0; 256]));
    let mut onehot = [0u32; 256];
    onehot[65] = 1_000_000;
    vecs.push(("one-hot".into(), onehot));
    let mut two = [1u32; 256];
    for i in 0..16 {
        two[i * 16] = 100_000;
    }
    vecs.push(("two-level".into(), two));
    let mut geo = [1u32; 256];
    for i in 0..20 {
        geo[i] = 1u32 << (20 - i);
    }
    vecs.push(("geometric-20".into(), geo));
    let mut geo_deep = [0u32; 256];
    for i in 0..31 {
        geo_deep[i] = 1u32 << i;
    }
    vecs.push(("geometric-31-levels".into(), geo_deep));
    vecs.push(("all-max".into(), [u32::MAX; 256]));
    let mut ramp = [0u32; 256];
    let mut squares = [0u32; 256];
    let mut zipf = [0u32; 256];
    let mut steps = [0u32; 256];
    let mut rev = [0u32; 256];
    for i in 0..256 {
        ramp[i] = i as u32 + 1;
        squares[i] = (i as u32 + 1) * (i as u32 + 1);
        zipf[i] = 1_000_000 / (i as u32 + 1);
        steps[i] = 1 + 1000 * (i as u32 / 32);
        rev[i] = file[255 - i];
    }
    // monotone vectors well above the EOF symbol's weight: the EOF symbol becomes the
    // deepest leaf and its code word is all zeros / sits at the other end of the tree, so
    // the implicit zero padding after the input decodes to EOF or to a data symbol
    let mut up = [0u32; 256];
    let mut down = [0u32; 256];
    for i in 0..256 {
        up[i] = 1000 + i as u32;
        down[i] = 5000 - i as u32;
    }
    // two interleaved chains: EOF (weight 1) with 1, 2, 4, ... and, hanging off a 1-branch next to
    // it, 3, 3, 6, 12, ...; both the EOF code (about 19 bits) and the deepest code of the second
    // chain end in long runs of zeros, so that input ending inside such a symbol needs more than
    // three bytes of implied zero padding to finish the symbol and then reach EOF
    let mut two_chains = [0u32; 256];
    {
        const CHAIN: usize = 14;
        let mut k = 0;
        for i in 0..CHAIN {
            two_chains[k] = 1u32 << i;
            k += 1;
        }
        two_chains[k] = 3;
        k += 1;
        for i in 0..CHAIN - 1 {
            two_chains[k] = 3u32 << i;
            k += 1;
        }
        // balanced blocks, each a little heavier than everything to its left, so that the two
        // chains stay on the light side all the way up to the root
        for (b, size) in [128usize, 64, 32, 4].iter().enumerate() {
            let total = ((1u32 << (b + 3)) - 1) << (CHAIN - 1);
            for _ in 0..*size {
                two_chains[k] = total / *size as u32;
                k += 1;
            }
        }
        assert_eq!(k, 256);
    }
    vecs.push(("two-chains-eof-all-zero".into(), two_chains));
    vecs.push(("offset-ramp-up".into(), up));
    vecs.push(("offset-ramp-down".into(), down));
    vecs.push(("ramp".into(), ramp));
    vecs.push(("squares".into(), squares));
    vecs.push(("zipf".into(), zipf));
    vecs.push(("steps".into(), steps));
    vecs.push(("shipped-reversed".into(), rev));
    for k in 0..8u64 {
        let b = vp_core::lcg_bytes(1000 + k, 1024);
        let mut f = [0u32; 256];
        for i in 0..256 {
            let x = u32::from_le_bytes([b[4 * i], b[4 * i + 1], b[4 * i + 2], b[4 * i + 3]]);
            f[i] = if k % 2 == 0 { x % 10_000 } else { 1 + (x >> 16) };
        }
        vecs.push((format!("lcg-{}", k), f));
    }
    let mut out = Vec::new();
    // the built-in table against the reference initialised from the shipped file
    out.push(Table {
        name: "built-in".into(),
        h: libtw2_huffman::instances::TEEWORLDS,
        r: RefHuffman::from_frequencies_array(&file),
    });
    for (name, f) in vecs {
        run.add_evals(1);
        match vp_core::catch(|| Huffman::from_frequencies_array(&f)) {
            Ok(h) => {
                run.class(&format!("table-built:{}", name), || json!({"frequencies_head": f[..8].to_vec()}));
                // shape of the table at the point where input ends: what the endless zero
                // padding decodes to (EOF = empty input is a valid stream)
                let mut e: Vec<u8> = Vec::with_capacity(16);
                let eof_zero = h.compress(&[], &mut e).map(|c| c.iter().all(|&b| b == 0)).unwrap_or(false);
                run.class(&format!("table-shape:eof-code-all-zero={}", eof_zero), || json!({"table": name.clone()}));
                if eof_zero {
                    run.class(&format!("table-shape:all-zero-eof-code-of-{}-bytes", e.len()), || json!({"table": name.clone()}));
                }
                out.push(Table {
                    name,
                    h,
                    r: RefHuffman::from_frequencies_array(&f),
                });
            }
            Err(p) => {
                // Code depth beyond the 24-bit representation: the constructor refuses.
                run.class(&format!("table-rejected:{}", name), || json!({"panic": p}));
            }
        }
    }
    out
}

fn viol(run: &Arc<Run>, t: &Table, sig: &str, detail: String, input: &[u8], extra: vp_core::serde_json::Value) {
    run.violation(
        &format!("c07:{}", sig),
        &format!("[table {}] {}", t.name, detail),
        json!({"table": t.name, "input_hex": vp_core::hex(input), "extra": extra}),
    );
}

/// compressor-side properties for one input
fn check_compress(run: &Arc<Run>, t: &Table, x: &[u8], lc: &mut LocalClasses) {
    lc.eval();
    let r = vp_core::catch(|| -> Result<String, (String, String)> {
        let mut a: Vec<u8> = Vec::with_capacity(x.len() * 4 + 16);
        let mut b: Vec<u8> = Vec::with_capacity(x.len() * 4 + 16);
        let mut c: Vec<u8> = Vec::with_capacity(x.len() * 4 + 16);
        t.h.compress(x, &mut a).map_err(|_| ("compress-capacity".to_string(), "compress fails with ample capacity".to_string()))?;
        t.h.compress_bug(x, &mut b).map_err(|_| ("compress-capacity".to_string(), "compress_bug fails with ample capacity".to_string()))?;
        if t.h.compressed_len(x) != a.len() {
            return Err(("compressed-len".into(), format!("compressed_len {} != produced {}", t.h.compressed_len(x), a.len())));
        }
        if t.h.compressed_len_bug(x) != b.len() {
            return Err(("compressed-len-bug".into(), format!("compressed_len_bug {} != produced {}", t.h.compressed_len_bug(x), b.len())));
        }
        // exact-capacity and one-less
        {
            let mut exact = vec![0xeeu8; a.len()];
            let n = t.h.compress(x, &mut exact[..]).map_err(|_| ("compress-exact-capacity".to_string(), "fails with exactly compressed_len bytes".to_string()))?.len();
            if exact[..n] != a[..] {
                return Err(("compress-exact-capacity".into(), "differs with exact capacity".into()));
            }
            if !a.is_empty() {
                let mut less = vec![0xeeu8; a.len() + 1];
                let l = a.len() - 1;
                if t.h.compress(x, &mut less[..l]).is_ok() {
                    return Err(("compress-overflow-not-reported".into(), "succeeds with one byte less than needed".into()));
                }
                if less[l] != 0xee || less[l + 1] != 0xee {
                    return Err(("compress-writes-past-buffer".into(), "canary overwritten".into()));
                }
            }
        }
        // the convenience wrappers are the same functions
        if t.h.compress_into_vec(x) != a {
            return Err(("wrapper:compress_into_vec".into(), "compress_into_vec differs from compress".into()));
        }
        match t.h.decompress_into_vec(&a) {
            Ok(d) if d == x => {}
            other => return Err(("wrapper:decompress_into_vec".into(), format!("decompress_into_vec(compress(x)) = {:?}", other.map(|d| vp_core::hex_short(&d)).map_err(|_| "InvalidInput"))))
        }
        if t.name == "built-in" {
            if libtw2_huffman::compress(x) != a {
                return Err(("wrapper:compress".into(), "compress() differs from the built-in table's compress".into()));
            }
            let mut w: Vec<u8> = Vec::with_capacity(x.len() * 4 + 16);
            match libtw2_huffman::compress_into(x, &mut w) {
                Ok(d) if d == &a[..] => {}
                _ => return Err(("wrapper:compress_into".into(), "compress_into differs".into())),
            }
            let mut w2: Vec<u8> = Vec::with_capacity(x.len() + 8);
            match libtw2_huffman::decompress_into(&a, &mut w2) {
                Ok(d) if d == x => {}
                _ => return Err(("wrapper:decompress_into".into(), "decompress_into differs".into())),
            }
        }
        // a growable buffer that is used again after a call on it failed: the failed call must not
        // have left anything behind - the next call that fits the spare capacity the buffer had
        // must succeed and append exactly its own output after what the buffer held before
        if a.len() >= 2 {
            let mut empty_c: Vec<u8> = Vec::with_capacity(16);
            t.h.compress(&[], &mut empty_c).map_err(|_| ("compress-capacity".to_string(), "compress of the empty input fails".to_string()))?;
            for bug in [false, true] {
                let need = if bug { b.len() } else { a.len() };
                if empty_c.len() + 1 > need {
                    continue;
                }
                let mut v: Vec<u8> = Vec::with_capacity(2 + need - 1);
                v.extend_from_slice(&[7, 7]);
                // (Vec::with_capacity may hand out more than asked for: only run with the exact amount)
                if v.capacity() != 2 + need - 1 {
                    continue;
                }
                let first = if bug { t.h.compress_bug(x, &mut v).map(|_| ()) } else { t.h.compress(x, &mut v).map(|_| ()) };
                if first.is_ok() {
                    return Err(("compress-overflow-not-reported".into(), "succeeds in a Vec with one byte less spare capacity than needed".into()));
                }
                match t.h.compress(&[], &mut v) {
                    Ok(_) => {}
                    Err(_) => return Err(("reuse-after-failed-compress".into(), format!("after a compress call that failed for lack of space, compressing the empty input ({} bytes) into the same Vec ({} bytes of spare capacity before the failed call) fails", empty_c.len(), need - 1))),
                }
                if v[..2] != [7, 7] || v[2..] != empty_c[..] {
                    return Err(("reuse-after-failed-compress".into(), format!("after a compress call that failed for lack of space the Vec holds {} instead of its old contents followed by the new output", vp_core::hex_short(&v))));
                }
            }
            if x.len() >= 2 {
                let mut v: Vec<u8> = Vec::with_capacity(2 + x.len() - 1);
                v.extend_from_slice(&[7, 7]);
                if v.capacity() == 2 + x.len() - 1 {
                    if t.h.decompress(&a, &mut v).is_ok() {
                        return Err(("decompress-overflow-not-reported".into(), "succeeds in a Vec with one byte less spare capacity than needed".into()));
                    }
                    // one symbol fewer than the spare capacity: must fit now
                    let mut small: Vec<u8> = Vec::with_capacity(x.len() * 4 + 16);
                    t.h.compress(&x[..x.len() - 1], &mut small).map_err(|_| ("compress-capacity".to_string(), "compress fails with ample capacity".to_string()))?;
                    match t.h.decompress(&small, &mut v) {
                        Ok(_) => {}
                        Err(e) => return Err(("reuse-after-failed-decompress".into(), format!("after a decompress call that failed for lack of space, an output that fits the same Vec is refused: {:?}", e))),
                    }
                    if v[..2] != [7, 7] || v[2..] != x[..x.len() - 1] {
                        return Err(("reuse-after-failed-decompress".into(), "after a decompress call that failed for lack of space the Vec does not hold its old contents followed by the new output".into()));
                    }
                }
            }
        }
        t.r.compress(x, &mut c).map_err(|_| ("reference-capacity".to_string(), "reference compress fails".to_string()))?;
        if b != c {
            return Err(("compress-bug-differs-from-reference".into(), format!("compress_bug {} vs reference {}", vp_core::hex_short(&b), vp_core::hex_short(&c))));
        }
        for (form, bytes) in [("compact", &a), ("reference-compatible", &b)] {
            let mut out: Vec<u8> = Vec::with_capacity(x.len() + 8);
            match t.h.decompress(bytes, &mut out) {
                Ok(d) if d == x => {}
                other => {
                    return Err((format!("roundtrip:{}", form), format!("decompress(compress(x)) = {:?}", other.map(|d| vp_core::hex_short(d)))));
                }
            }
            // exact output capacity must suffice, one less must be Capacity
            let mut exact = vec![0u8; x.len() + 2];
            exact[x.len()] = 0xc5;
            exact[x.len() + 1] = 0xc5;
            match t.h.decompress(bytes, &mut exact[..x.len()]) {
                Ok(d) if d == x => {}
                other => return Err((format!("roundtrip-exact-capacity:{}", form), format!("{:?}", other.map(|d| d.len())))),
            }
            if exact[x.len()] != 0xc5 {
                return Err(("decompress-writes-past-buffer".into(), "canary overwritten".into()));
            }
            if !x.is_empty() {
                match t.h.decompress(bytes, &mut exact[..x.len() - 1]) {
                    Err(DecompressionError::Capacity(_)) => {}
                    other => return Err(("decompress-overflow-not-reported".into(), format!("{:?}", other.map(|d| d.len())))),
                }
            }
            // the reference decodes our output to the same bytes
            let mut rout: Vec<u8> = Vec::with_capacity(x.len() + 8);
            match t.r.decompress(bytes, &mut rout) {
                Ok(d) if d == x => {}
                other => return Err((format!("reference-cannot-decode-our-output:{}", form), format!("{:?}", other.map(|d| d.len())))),
            }
        }
        Ok(format!("compress:{}:extra-byte{}:ratio{}", t.name, (b.len() != a.len()) as u8, if a.len() < x.len() { "<" } else if a.len() == x.len() { "=" } else { ">" }))
    });
    match r {
        Ok(Ok(c)) => lc.class(&c, || json!({"input": vp_core::hex_short(x)})),
        Ok(Err((sig, d))) => viol(run, t, &sig, d, x, json!(null)),
        Err(p) => viol(run, t, &vp_core::panic_sig(&p), p, x, json!("compress side")),
    }
}

/// decompressor-side properties for one input and every capacity in `caps`
fn check_decompress(run: &Arc<Run>, t: &Table, y: &[u8], caps: std::ops::RangeInclusive<usize>, lc: &mut LocalClasses) {
    // reference with ample capacity
    let mut rbuf: Vec<u8> = Vec::with_capacity(y.len() * 8 + 64);
    let reference: Option<Vec<u8>> = t.r.decompress(y, &mut rbuf).ok().map(|d| d.to_vec());
    // ours with ample capacity
    let ample = vp_core::catch(|| {
        let mut buf: Vec<u8> = Vec::with_capacity(y.len() * 8 + 64);
        t.h.decompress(y, &mut buf).map(|d| d.to_vec()).map_err(|e| format!("{:?}", e))
    });
    lc.eval();
    let ours = match ample {
        Err(p) => {
            viol(run, t, &vp_core::panic_sig(&p), p, y, json!("decompress, ample capacity"));
            return;
        }
        Ok(o) => o,
    };
    if let Some(r) = &reference {
        if ours.as_ref().ok() != Some(r) {
            viol(run, t, "differs-from-reference", format!("reference decodes to {} but this decoder gives {:?}", vp_core::hex_short(r), ours.as_ref().map(|d| vp_core::hex_short(d))), y, json!(null));
            return;
        }
    }
    // the Vec-returning wrapper: documented capacity 8 x input (one output byte per input bit),
    // so it must agree with the explicit-buffer decoder whenever that output fits
    {
        let v = vp_core::catch(|| t.h.decompress_into_vec(y).ok());
        let v = match v {
            Err(p) => {
                viol(run, t, &vp_core::panic_sig(&p), p, y, json!("decompress_into_vec"));
                return;
            }
            Ok(v) => v,
        };
        let expect: Option<&Vec<u8>> = match &ours {
            Ok(o) if o.len() <= 8 * y.len() => Some(o),
            _ => None,
        };
        if v.as_ref() != expect {
            viol(run, t, "into-vec-differs", format!("decompress_into_vec gives {:?} but decompress into a buffer gives {:?}", v.as_ref().map(|d| vp_core::hex_short(d)), ours.as_ref().map(|d| vp_core::hex_short(d))), y, json!(null));
            return;
        }
        if t.name == "built-in" {
            match vp_core::catch(|| libtw2_huffman::decompress(y).ok()) {
                Ok(w) if w == v => {}
                _ => {
                    viol(run, t, "into-vec-differs", "decompress() differs from the built-in table's decompress_into_vec".into(), y, json!(null));
                    return;
                }
            }
        }
    }
    for cap in caps {
        lc.eval();
        let r = vp_core::catch(|| {
            let mut arena = vec![0xc5u8; cap + 16];
            let res = t.h.decompress(y, &mut arena[8..8 + cap]).map(|d| d.to_vec()).map_err(|e| matches!(e, DecompressionError::Capacity(_)));
            let canaries_ok = arena[..8].iter().all(|&b| b == 0xc5) && arena[8 + cap..].iter().all(|&b| b == 0xc5);
            (res, canaries_ok)
        });
        match r {
            Err(p) => {
                viol(run, t, &vp_core::panic_sig(&p), p, y, json!({"capacity": cap}));
                return;
            }
            Ok((res, canaries_ok)) => {
                if !canaries_ok {
                    viol(run, t, "decompress-writes-past-buffer", format!("canary overwritten at capacity {}", cap), y, json!({"capacity": cap}));
                    return;
                }
                match (&ours, &res) {
                    (Ok(full), Ok(d)) if full.len() <= cap && d == full => {}
                    (Ok(full), Err(_)) if full.len() > cap => {}
                    (Err(_), Err(_)) => {}
                    _ => {
                        viol(run, t, "capacity-dependence", format!("capacity {}: result {:?} but with ample capacity {:?}", cap, res.as_ref().map(|d| d.len()), ours.as_ref().map(|d| d.len())), y, json!({"capacity": cap}));
                        return;
                    }
                }
            }
        }
    }
    let class = format!(
        "decompress:{}:ours{}:ref{}",
        t.name,
        match &ours { Ok(d) => if d.is_empty() { "ok-empty" } else { "ok" }, Err(_) => "err" },
        match &reference { Some(_) => "ok", None => "err" }
    );
    lc.class(&class, || json!({"input": vp_core::hex_short(y)}));
}

fn sweep<I, F>(run: &Arc<Run>, it: I, f: F)
where
    I: ParallelIterator<Item = Vec<u8>>,
    F: Fn(&[u8], &mut LocalClasses) + Sync,
{
    let lc = it
        .fold(LocalClasses::new, |mut lc, x| {
            f(&x, &mut lc);
            lc
        })
        .reduce(LocalClasses::new, |a, b| a.merge(b));
    run.merge_classes(lc);
}

fn short_strings(max_len: usize) -> impl ParallelIterator<Item = Vec<u8>> {
    let total: usize = (0..=max_len).map(|l| 256usize.pow(l as u32)).sum();
    (0..total).into_par_iter().map(move |mut i| {
        let mut l = 0;
        while i >= 256usize.pow(l as u32) {
            i -= 256usize.pow(l as u32);
            l += 1;
        }
        (0..l).map(|k| (i >> (8 * k)) as u8).collect()
    })
}

fn main() {
    let run = Run::new("C07", "exploration");
    let thorough = run.tier == Tier::Thorough;
    let tables = tables(&run);
    run.set("tables", json!(tables.iter().map(|t| t.name.clone()).collect::<Vec<_>>()));
    for t in &tables {
        let main_table = t.name == "built-in" || t.name == "shipped-frequency-file";
        // --- compressor inputs
        sweep(&run, short_strings(2), |x, lc| check_compress(&run, t, x, lc));
        let max_len = if main_table { 4096 } else { 300 };
        let step = if thorough || !main_table { 1 } else { 1 };
        let lens: Vec<(usize, usize)> = (0..=max_len).step_by(step).flat_map(|l| (0..4).map(move |c| (l, c))).collect();
        sweep(&run, lens.into_par_iter().map(|(l, c)| content(c, l)), |x, lc| check_compress(&run, t, x, lc));
        let reps: Vec<(u8, usize)> = (0..=255u8).flat_map(|b| (1..=64).map(move |n| (b, n))).collect();
        sweep(&run, reps.into_par_iter().map(|(b, n)| vec![b; n]), |x, lc| check_compress(&run, t, x, lc));
        // every ordered pair of symbols followed by one of 8 third symbols: every symbol's code
        // is written at every bit offset the table's code lengths produce, with a variety of
        // bits following it (a wrong bit in one stored code shows only at some offsets and only
        // where the following bit is not already set)
        if main_table {
            const THIRD: [u8; 8] = [0x00, 0x01, 0x20, 0x61, 0x80, 0xf8, 0xfe, 0xff];
            sweep(&run, (0..65536u32 * 8).into_par_iter().map(|i| vec![(i >> 11) as u8, (i >> 3) as u8, THIRD[(i & 7) as usize]]), |x, lc| check_compress(&run, t, x, lc));
        }
        // --- decompressor inputs
        let dl = if thorough && main_table { 3 } else { 2 };
        if dl == 3 {
            // every capacity for length <= 2, capacities {0,1,2,3,24,26} for length 3
            sweep(&run, short_strings(2), |y, lc| check_decompress(&run, t, y, 0..=(8 * y.len() + 2), lc));
            let caps = if t.name == "built-in" { 26 } else { 5 };
            sweep(&run, (0..1u32 << 24).into_par_iter().map(|i| vec![i as u8, (i >> 8) as u8, (i >> 16) as u8]), |y, lc| check_decompress(&run, t, y, 0..=caps, lc));
        } else if main_table || thorough {
            sweep(&run, short_strings(2), |y, lc| check_decompress(&run, t, y, 0..=(8 * y.len() + 2), lc));
            if main_table {
                // length 3: first two bytes exhaustive, third from a boundary set
                const B: [u8; 16] = [0, 1, 2, 3, 0x0f, 0x10, 0x3f, 0x40, 0x55, 0x7f, 0x80, 0xaa, 0xc0, 0xf0, 0xfe, 0xff];
                sweep(&run, (0..65536u32 * 16).into_par_iter().map(|i| vec![(i >> 4) as u8, (i >> 12) as u8, B[(i & 15) as usize]]), |y, lc| check_decompress(&run, t, y, 0..=5, lc));
            }
        } else {
            sweep(&run, short_strings(1), |y, lc| check_decompress(&run, t, y, 0..=(8 * y.len() + 2), lc));
            sweep(&run, (0..65536u32).into_par_iter().filter(|i| i % 7 == 0).map(|i| vec![i as u8, (i >> 8) as u8]), |y, lc| check_decompress(&run, t, y, 0..=(8 * y.len() + 2), lc));
        }
        // valid streams: prefixes and one-byte extensions
        let mut streams: Vec<Vec<u8>> = Vec::new();
        for (l, c) in [(0usize, 0usize), (1, 1), (5, 1), (17, 2), (64, 0), (100, 3), (257, 2), (700, 1)] {
            let x = content(c, l);
            let mut a: Vec<u8> = Vec::with_capacity(x.len() * 4 + 16);
            let mut b: Vec<u8> = Vec::with_capacity(x.len() * 4 + 16);
            if t.h.compress(&x, &mut a).is_ok() && t.h.compress_bug(&x, &mut b).is_ok() {
                streams.push(a);
                streams.push(b);
            }
        }
        let mut mutated: Vec<Vec<u8>> = Vec::new();
        for s in &streams {
            let step = if s.len() > 200 { 7 } else { 1 };
            for cut in (0..=s.len()).step_by(step) {
                mutated.push(s[..cut].to_vec());
            }
            for b in 0..=255u8 {
                let mut e = s.clone();
                e.push(b);
                mutated.push(e);
            }
            for pos in (0..s.len()).step_by(step.max(3)) {
                for v in [0u8, 0xff, s[pos] ^ 1, s[pos] ^ 0x80] {
                    let mut e = s.clone();
                    e[pos] = v;
                    mutated.push(e);
                }
            }
        }
        for b in [0u8, 0xff, 0x55, 0xaa] {
            for l in [8usize, 64, 512, 2048] {
                mutated.push(vec![b; l]);
            }
        }
        sweep(&run, mutated.into_par_iter(), |y, lc| {
            let n = y.len();
            check_decompress(&run, t, y, 0..=(if n > 40 { 3 } else { 8 * n + 2 }), lc)
        });
    }
    run.assume("frequency vectors whose code depth exceeds the 24-bit representation make the table constructor refuse (panic); they are counted as 'table-rejected' and skipped - table construction limits are not part of the statement");
    run.assume("content classes: zeros, 'abc' repeated, byte counter, fixed LCG stream (a named constant member of the alphabet)");
    run.finish(
        "per code table (built-in, shipped frequency file, 23 synthetic frequency vectors incl. two whose EOF code word is all zeros, so that input ending between two symbols decodes to EOF): all compressor inputs of length <=2, for the built-in and shipped tables every pair of symbols followed by one of 8 third symbols, every length 0..4096 x 4 content classes, every byte value repeated 1..64; all decompressor inputs of length <=2 (<=3 thorough) x every output capacity 0..8n+2 between canaries, every prefix / one-byte extension / byte substitution of valid streams; oracle: round trip for both output forms, the convenience wrappers (compress, compress_into, compress_into_vec, decompress, decompress_into, decompress_into_vec) agree with the buffer API, exact predicted lengths, byte identity with the C++ reference, equality with the reference whenever it decodes, capacity errors exactly when the output does not fit, a growable buffer used again after a call on it failed for lack of space behaves as if the failed call had not happened, no write past the buffer, termination (watchdog)",
        true,
    );
}
