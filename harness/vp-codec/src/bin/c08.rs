//! C08: variable-length integers and packed fields round-trip canonically.

use arrayvec::ArrayVec;
use libtw2_packer::with_packer;
use libtw2_packer::ExcessData;
use libtw2_packer::IntUnpacker;
use libtw2_packer::Unpacker;
use libtw2_packer::Warning;
use std::sync::atomic::AtomicU64;
use std::sync::atomic::Ordering;
use std::sync::Arc;
use vp_core::rayon::prelude::*;
use vp_core::serde_json::json;
use vp_core::LocalClasses;
use vp_core::Run;
use vp_core::Tier;

/// Reference encoder written from doc/int.md.
fn ref_encode(v: i32) -> ([u8; 5], usize) {
    let sign = v < 0;
    // flag_sign: all bits of the resulting number are flipped
    let mut bits: u32 = if sign { !(v as u32) } else { v as u32 };
    let mut out = [0u8; 5];
    let mut n = 0;
    let mut b = (bits & 0x3f) as u8;
    if sign {
        b |= 0x40;
    }
    bits >>= 6;
    loop {
        if bits != 0 {
            out[n] = b | 0x80;
            n += 1;
            b = (bits & 0x7f) as u8;
            bits >>= 7;
        } else {
            out[n] = b;
            n += 1;
            break;
        }
    }
    (out, n)
}

#[derive(Debug, PartialEq)]
enum RefDecode {
    /// (value if the padding is zero, consumed, canonical)
    Ok(Option<i32>, usize, bool),
    EndsTooEarly,
}

/// Reference decoder written from doc/int.md.
fn ref_decode(s: &[u8]) -> RefDecode {
    if s.is_empty() {
        return RefDecode::EndsTooEarly;
    }
    let sign = s[0] & 0x40 != 0;
    let mut bits: u64 = (s[0] & 0x3f) as u64;
    let mut n = 1;
    let mut ext = s[0] & 0x80 != 0;
    let mut shift = 6;
    let mut padding_zero = true;
    while ext && n < 5 {
        if n >= s.len() {
            return RefDecode::EndsTooEarly;
        }
        let b = s[n];
        n += 1;
        if n == 5 {
            // last_byte: [4] padding [4] bits
            if b & 0xf0 != 0 {
                padding_zero = false;
            }
            bits |= ((b & 0x0f) as u64) << shift;
            ext = false;
        } else {
            bits |= ((b & 0x7f) as u64) << shift;
            shift += 7;
            ext = b & 0x80 != 0;
        }
    }
    let value = if padding_zero {
        let v = bits as u32;
        Some(if sign { !v as i32 } else { v as i32 })
    } else {
        None
    };
    let canonical = match value {
        Some(v) => {
            let (e, l) = ref_encode(v);
            l == n && e[..l] == s[..n]
        }
        None => false,
    };
    RefDecode::Ok(value, n, canonical)
}

fn check_decode(s: &[u8]) -> Result<&'static str, String> {
    let mut w: Vec<Warning> = Vec::new();
    let mut u = Unpacker::new(s);
    let r = u.read_int(&mut w);
    let consumed = u.num_bytes_read();
    match (ref_decode(s), r) {
        (RefDecode::EndsTooEarly, Err(_)) => Ok("ends-too-early"),
        (RefDecode::EndsTooEarly, Ok(v)) => Err(format!("decodes to {} although the string ends too early", v)),
        (RefDecode::Ok(..), Err(_)) => Err("fails although the string is complete".into()),
        (RefDecode::Ok(value, n, canonical), Ok(v)) => {
            if consumed != n {
                return Err(format!("consumed {} bytes, documentation says {}", consumed, n));
            }
            if let Some(exp) = value {
                if v != exp {
                    return Err(format!("value {} but the documentation prescribes {}", v, exp));
                }
            }
            if canonical != w.is_empty() {
                return Err(format!("canonical={} but warnings={:?}", canonical, w));
            }
            if u.as_slice() != &s[n..] {
                return Err("as_slice is not the unread rest".into());
            }
            Ok(if canonical {
                "canonical"
            } else if value.is_none() {
                "nonzero-padding"
            } else {
                "overlong"
            })
        }
    }
}

fn encode_all(run: &Arc<Run>) {
    let by_len: [AtomicU64; 6] = Default::default();
    let nblocks = 1u32 << 16;
    (0..nblocks).into_par_iter().for_each(|hi| {
        let mut counts = [0u64; 6];
        for lo in 0..(1u32 << 16) {
            let v = ((hi << 16) | lo) as i32;
            let mut buf = [0xa5u8; 8];
            let written: Result<usize, ()> = with_packer(&mut buf[..5], |mut p| {
                p.write_int(v).map_err(|_| ())?;
                Ok(p.written().len())
            });
            let n = match written {
                Ok(n) => n,
                Err(()) => {
                    run.violation("c08:encode-needs-more-than-5-bytes", &format!("{}", v), json!({"int": v}));
                    continue;
                }
            };
            let (e, l) = ref_encode(v);
            let mut ok = n == l && buf[..n] == e[..l] && (1..=5).contains(&n) && buf[5] == 0xa5;
            if ok {
                let mut w: Vec<Warning> = Vec::new();
                let mut u = Unpacker::new(&buf[..n]);
                ok = u.read_int(&mut w) == Ok(v) && w.is_empty() && u.is_empty();
                let mut ex: Vec<ExcessData> = Vec::new();
                u.finish(&mut ex);
                ok = ok && ex.is_empty();
            }
            if !ok {
                run.violation(
                    "c08:encode-roundtrip",
                    &format!("int {} encodes to {} (reference {})", v, vp_core::hex(&buf[..n]), vp_core::hex(&e[..l])),
                    json!({"int": v}),
                );
                continue;
            }
            // no shorter encoding exists: every shorter string decodes to something else
            // (decided completely by the decode sweep: warning-free <=> canonical); here
            // the cheap necessary condition: the value does not fit the next smaller size
            let mag = if v < 0 { !(v as u32) } else { v as u32 };
            let min_len = if mag < 1 << 6 { 1 } else if mag < 1 << 13 { 2 } else if mag < 1 << 20 { 3 } else if mag < 1 << 27 { 4 } else { 5 };
            if n != min_len {
                run.violation("c08:encode-not-shortest", &format!("int {} uses {} bytes, {} suffice", v, n, min_len), json!({"int": v}));
            }
            counts[n] += 1;
        }
        for i in 0..6 {
            by_len[i].fetch_add(counts[i], Ordering::Relaxed);
        }
    });
    run.add_evals(1u64 << 32);
    for i in 1..6 {
        let c = by_len[i].load(Ordering::Relaxed);
        run.class_n(&format!("encode:{}-byte", i), c, || json!({"count": c}));
    }
}

fn decode_sweep(run: &Arc<Run>, tier: Tier) {
    let run2 = run.clone();
    let go = move |name: &str, n: u64, f: &(dyn Fn(u64) -> ([u8; 5], usize) + Sync)| {
        let lc = (0..n as usize)
            .into_par_iter()
            .fold(LocalClasses::new, |mut lc, i| {
                let (b, l) = f(i as u64);
                lc.eval();
                match vp_core::catch(|| check_decode(&b[..l])) {
                    Ok(Ok(c)) => lc.class(&format!("decode:{}:{}", l, c), || json!(vp_core::hex(&b[..l]))),
                    Ok(Err(d)) => {
                        run2.violation(&format!("c08:decode:{}", name), &format!("{}: {}", vp_core::hex(&b[..l]), d), json!({"bytes": vp_core::hex(&b[..l])}));
                    }
                    Err(p) => {
                        run2.violation(&format!("c08:decode:{}", vp_core::panic_sig(&p)), &p, json!({"bytes": vp_core::hex(&b[..l])}));
                    }
                }
                lc
            })
            .reduce(LocalClasses::new, |a, b| a.merge(b));
        run2.merge_classes(lc);
    };
    // all strings of length 0..3
    go("len<=3", 1 + 256 + 65536 + (1 << 24), &|mut i| {
        let mut l = 0usize;
        let mut b = [0u8; 5];
        while i >= 256u64.pow(l as u32) {
            i -= 256u64.pow(l as u32);
            l += 1;
        }
        for k in 0..l {
            b[k] = (i >> (8 * k)) as u8;
        }
        (b, l)
    });
    // 4- and 5-byte strings: first and last byte exhaustive, middle bytes from boundary patterns
    const MID: [u8; 10] = [0x00, 0x01, 0x7f, 0x80, 0x81, 0xaa, 0xc0, 0xfe, 0xff, 0x3f];
    go("len4-structured", 256 * 256 * 100, &|i| {
        let b0 = i as u8;
        let b3 = (i >> 8) as u8;
        let m = (i >> 16) as usize;
        ([b0, MID[m % 10], MID[m / 10], b3, 0], 4)
    });
    go("len5-structured", 256 * 256 * 1000, &|i| {
        let b0 = i as u8;
        let b4 = (i >> 8) as u8;
        let m = (i >> 16) as usize;
        ([b0, MID[m % 10], MID[(m / 10) % 10], MID[m / 100], b4], 5)
    });
    if tier == Tier::Thorough {
        // every consumable 4-byte string (all first bytes, all continuation patterns)
        go("len4-all", 1 << 32, &|i| ([i as u8, (i >> 8) as u8, (i >> 16) as u8, (i >> 24) as u8, 0], 4));
        // every 5-byte encoding: first four bytes with extend bits set (2^28 combinations
        // of their 7 payload bits) x every last byte (2^8) = 2^36
        let blocks = 1u64 << 20; // 2^20 blocks of 2^16
        let lc = (0..blocks as usize)
            .into_par_iter()
            .fold(LocalClasses::new, |mut lc, blk| {
                for j in 0..(1u64 << 16) {
                    let i = ((blk as u64) << 16) | j;
                    let b = [
                        0x80 | (i & 0x7f) as u8,
                        0x80 | ((i >> 7) & 0x7f) as u8,
                        0x80 | ((i >> 14) & 0x7f) as u8,
                        0x80 | ((i >> 21) & 0x7f) as u8,
                        (i >> 28) as u8,
                    ];
                    lc.eval();
                    match check_decode(&b) {
                        Ok(c) => {
                            if j < 512 {
                                lc.class(&format!("decode:5-full:{}", c), || json!(vp_core::hex(&b)));
                            }
                        }
                        Err(d) => {
                            run.violation("c08:decode:len5-all", &format!("{}: {}", vp_core::hex(&b), d), json!({"bytes": vp_core::hex(&b)}));
                        }
                    }
                }
                lc
            })
            .reduce(LocalClasses::new, |a, b| a.merge(b));
        run.merge_classes(lc);
    }
}

#[derive(Clone, Debug, PartialEq)]
enum Field {
    Int(i32),
    Str(Vec<u8>),
    Data(Vec<u8>),
    Raw(Vec<u8>),
    /// `write_uuid` / `read_uuid`: sixteen raw bytes
    Uuid([u8; 16]),
    /// `write_rest` / `read_rest`: everything up to the end (read back only as the last field)
    Rest(Vec<u8>),
}

fn alphabet() -> Vec<Field> {
    let mut v = Vec::new();
    for i in [0, -1, 63, 64, i32::MIN, i32::MAX] {
        v.push(Field::Int(i));
    }
    for s in [&b""[..], b"a", b"abc"] {
        v.push(Field::Str(s.to_vec()));
    }
    for d in [&[][..], &[0], &[1, 2, 3]] {
        v.push(Field::Data(d.to_vec()));
    }
    for r in [&[][..], &[0xff]] {
        v.push(Field::Raw(r.to_vec()));
    }
    v.push(Field::Uuid([0x80, 0, 0xff, 1, 2, 3, 4, 5, 6, 7, 8, 9, 10, 11, 12, 0x40]));
    v.push(Field::Rest(vec![0x80, 0, 0xff]));
    v
}

fn expected_bytes(seq: &[&Field]) -> Vec<u8> {
    let mut out = Vec::new();
    for f in seq {
        match f {
            Field::Int(i) => {
                let (e, l) = ref_encode(*i);
                out.extend_from_slice(&e[..l]);
            }
            Field::Str(s) => {
                out.extend_from_slice(s);
                out.push(0);
            }
            Field::Data(d) => {
                let (e, l) = ref_encode(d.len() as i32);
                out.extend_from_slice(&e[..l]);
                out.extend_from_slice(d);
            }
            Field::Raw(r) => out.extend_from_slice(r),
            Field::Uuid(u) => out.extend_from_slice(u),
            Field::Rest(r) => out.extend_from_slice(r),
        }
    }
    out
}

fn write_seq(p: &mut libtw2_packer::Packer, seq: &[&Field]) -> Result<(), usize> {
    for (i, f) in seq.iter().enumerate() {
        let r = match f {
            Field::Int(v) => p.write_int(*v),
            Field::Str(s) => p.write_string(s),
            Field::Data(d) => p.write_data(d),
            Field::Raw(r) => p.write_raw(r),
            Field::Uuid(u) => p.write_uuid(uuid::Uuid::from_bytes(*u)),
            Field::Rest(r) => p.write_rest(r),
        };
        if r.is_err() {
            return Err(i);
        }
    }
    Ok(())
}

fn check_sequence(seq: &[&Field]) -> Result<String, String> {
    check_sequence_caps(seq, true)
}

/// `all_caps`: every capacity 0..total+1; otherwise only those within 6 bytes of what is needed
/// (for long fields).
fn check_sequence_caps(seq: &[&Field], all_caps: bool) -> Result<String, String> {
    let exp = expected_bytes(seq);
    let total = exp.len();
    // every capacity 0..total+1 for three kinds of backing store
    for cap in (0..=total + 1).filter(|c| all_caps || *c + 6 >= total || *c < 3) {
        // slice
        let mut arena = vec![0xc5u8; cap + 4];
        let r: Result<Vec<u8>, usize> = with_packer(&mut arena[..cap], |mut p| write_seq(&mut p, seq).map(|()| p.written().to_vec()));
        if arena[cap..].iter().any(|&b| b != 0xc5) {
            return Err(format!("slice capacity {}: wrote past the buffer", cap));
        }
        match &r {
            Ok(b) if cap >= total && *b == exp => {}
            Err(_) if cap < total => {}
            other => return Err(format!("slice capacity {} (needed {}): {:?}", cap, total, other)),
        }
        // a caller that keeps writing after an error: every write that reported success must be
        // read back, in order, from what the packer says it has written
        if cap < total {
            let mut arena2 = vec![0xc5u8; cap + 4];
            let (oks, written): (Vec<bool>, Vec<u8>) = with_packer(&mut arena2[..cap], |mut p| {
                let oks: Vec<bool> = seq
                    .iter()
                    .map(|f| match f {
                        Field::Int(v) => p.write_int(*v).is_ok(),
                        Field::Str(s) => p.write_string(s).is_ok(),
                        Field::Data(d) => p.write_data(d).is_ok(),
                        Field::Raw(r) => p.write_raw(r).is_ok(),
                        Field::Uuid(u) => p.write_uuid(uuid::Uuid::from_bytes(*u)).is_ok(),
                        Field::Rest(r) => p.write_rest(r).is_ok(),
                    })
                    .collect();
                (oks, p.written().to_vec())
            });
            if arena2[cap..].iter().any(|&b| b != 0xc5) {
                return Err(format!("slice capacity {}: wrote past the buffer while continuing after an error", cap));
            }
            let mut u = Unpacker::new(&written);
            let mut w: Vec<Warning> = Vec::new();
            for (k, (f, ok)) in seq.iter().zip(&oks).enumerate() {
                if !*ok {
                    continue;
                }
                let same = match f {
                    Field::Int(v) => u.read_int(&mut w) == Ok(*v),
                    Field::Str(s) => u.read_string() == Ok(&s[..]),
                    Field::Data(d) => u.read_data(&mut w) == Ok(&d[..]),
                    Field::Raw(r) => u.read_raw(r.len()) == Ok(&r[..]),
                    Field::Uuid(x) => u.read_uuid() == Ok(uuid::Uuid::from_bytes(*x)),
                    // (a "rest" that is followed by other fields is read back as raw bytes)
                    Field::Rest(r) => u.read_raw(r.len()) == Ok(&r[..]),
                };
                if !same {
                    return Err(format!("slice capacity {}: write #{} reported success after an earlier one had failed ({:?}), but is not read back", cap, k, oks));
                }
            }
        }
        // Vec with that spare capacity and a pre-existing length
        let mut v: Vec<u8> = Vec::with_capacity(cap + 2);
        v.extend_from_slice(&[7, 7]);
        let vcap = v.capacity() - 2;
        let r: Result<(), usize> = with_packer(&mut v, |mut p| write_seq(&mut p, seq));
        match r {
            Ok(()) => {
                if v[..2] != [7, 7] || v[2..] != exp[..] {
                    return Err(format!("Vec capacity {}: contents differ", vcap));
                }
            }
            Err(_) => {
                if vcap >= total {
                    return Err(format!("Vec with spare capacity {} refused {} bytes", vcap, total));
                }
            }
        }
    }
    // ArrayVec<[u8; 16]>
    {
        let mut a: ArrayVec<[u8; 16]> = ArrayVec::new();
        let r: Result<(), usize> = with_packer(&mut a, |mut p| write_seq(&mut p, seq));
        match r {
            Ok(()) if total <= 16 && a[..] == exp[..] => {}
            Err(_) if total > 16 => {}
            other => return Err(format!("ArrayVec: {:?} for {} bytes", other, total)),
        }
    }
    // read back
    let mut u = Unpacker::new(&exp);
    let mut w: Vec<Warning> = Vec::new();
    let mut pos = 0usize;
    for (k, f) in seq.iter().enumerate() {
        if u.num_bytes_read() != pos || u.as_slice() != &exp[pos..] {
            return Err(format!("num_bytes_read/as_slice inconsistent at {}", pos));
        }
        match f {
            Field::Int(v) => {
                if u.read_int(&mut w) != Ok(*v) {
                    return Err(format!("int {} not read back", v));
                }
                pos += ref_encode(*v).1;
            }
            Field::Str(s) => {
                if u.read_string() != Ok(&s[..]) {
                    return Err("string not read back".into());
                }
                pos += s.len() + 1;
            }
            Field::Data(d) => {
                if u.read_data(&mut w) != Ok(&d[..]) {
                    return Err("data not read back".into());
                }
                pos += ref_encode(d.len() as i32).1 + d.len();
            }
            Field::Raw(r) => {
                if u.read_raw(r.len()) != Ok(&r[..]) {
                    return Err("raw not read back".into());
                }
                pos += r.len();
            }
            Field::Uuid(x) => {
                if u.read_uuid() != Ok(uuid::Uuid::from_bytes(*x)) {
                    return Err("uuid not read back".into());
                }
                pos += 16;
            }
            Field::Rest(r) => {
                if k + 1 == seq.len() {
                    // the last field: `read_rest` returns exactly it and leaves nothing
                    if u.read_rest() != Ok(&r[..]) {
                        return Err("rest not read back".into());
                    }
                } else if u.read_raw(r.len()) != Ok(&r[..]) {
                    return Err("rest (followed by other fields) not read back as raw bytes".into());
                }
                pos += r.len();
            }
        }
    }
    if !w.is_empty() {
        return Err(format!("warnings {:?} reading back the packer's own output", w));
    }
    if !u.is_empty() || u.num_bytes_read() != total {
        return Err("unpacker not at the end after reading everything back".into());
    }
    // reads past the end fail, and keep failing (poison)
    let mut w2: Vec<Warning> = Vec::new();
    if u.read_int(&mut w2).is_ok() || u.read_string().is_ok() || u.read_data(&mut w2).is_ok() || u.read_raw(1).is_ok() {
        return Err("read past the end succeeds".into());
    }
    if u.read_raw(0) != Ok(&[][..]) {
        return Err("zero-length raw read at the end fails".into());
    }
    let mut ex: Vec<ExcessData> = Vec::new();
    u.finish(&mut ex);
    if !ex.is_empty() {
        return Err("finish warns although everything was read".into());
    }
    // every truncation: some read fails, never a panic, and afterwards all reads fail
    for cut in (0..total).filter(|c| all_caps || *c < 8 || *c + 8 >= total || *c % 4099 == 0) {
        let mut u = Unpacker::new(&exp[..cut]);
        let mut w: Vec<Warning> = Vec::new();
        let mut failed = false;
        for f in seq {
            let ok = match f {
                Field::Int(_) => u.read_int(&mut w).is_ok(),
                Field::Str(_) => u.read_string().is_ok(),
                Field::Data(_) => u.read_data(&mut w).is_ok(),
                Field::Raw(r) => u.read_raw(r.len()).is_ok(),
                Field::Uuid(_) => u.read_uuid().is_ok(),
                Field::Rest(r) => u.read_raw(r.len()).is_ok(),
            };
            if !ok {
                failed = true;
                if !u.is_empty() {
                    return Err(format!("truncation at {}: unpacker not used up after an error", cut));
                }
                if u.read_int(&mut w).is_ok() || u.read_raw(1).is_ok() || u.read_string().is_ok() {
                    return Err(format!("truncation at {}: read succeeds after an error", cut));
                }
                break;
            }
            if u.num_bytes_read() > cut {
                return Err(format!("truncation at {}: read ran past what was written", cut));
            }
        }
        if !failed {
            // only possible if the removed suffix consisted of zero-length reads
            if u.num_bytes_read() > cut {
                return Err(format!("truncation at {}: all reads succeeded", cut));
            }
            let ok_by_empty = seq.iter().rev().take_while(|f| matches!(f, Field::Raw(r) | Field::Rest(r) if r.is_empty())).count() > 0;
            if !ok_by_empty {
                return Err(format!("truncation at {}: all reads succeeded on a truncated buffer", cut));
            }
        }
    }
    Ok(format!("seq:len{}:bytes{}", seq.len(), total.min(12)))
}

fn sequences(run: &Arc<Run>, depth: usize) {
    let alpha = alphabet();
    let n = alpha.len();
    let total: usize = (0..=depth).map(|d| n.pow(d as u32)).sum();
    let lc = (0..total)
        .into_par_iter()
        .fold(LocalClasses::new, |mut lc, idx| {
            let mut i = idx;
            let mut d = 0;
            while i >= n.pow(d as u32) {
                i -= n.pow(d as u32);
                d += 1;
            }
            let mut seq: Vec<&Field> = Vec::new();
            for _ in 0..d {
                seq.push(&alpha[i % n]);
                i /= n;
            }
            lc.eval();
            match vp_core::catch(|| check_sequence(&seq)) {
                Ok(Ok(c)) => lc.class(&c, || json!(format!("{:?}", seq))),
                Ok(Err(d)) => {
                    run.violation("c08:packer-sequence", &format!("{:?}: {}", seq, d), json!({"writes": format!("{:?}", seq)}));
                }
                Err(p) => {
                    run.violation(&format!("c08:packer:{}", vp_core::panic_sig(&p)), &p, json!({"writes": format!("{:?}", seq)}));
                }
            }
            lc
        })
        .reduce(LocalClasses::new, |a, b| a.merge(b));
    run.merge_classes(lc);
}

/// Field LENGTHS: strings, length-prefixed data and raw bytes of every length 0..=300 and on
/// both sides of the lengths at which the length prefix grows (64, 8192, 1048576 need one more
/// byte), alone and between two other fields.
fn lengths(run: &Arc<Run>) {
    let mut lens: Vec<usize> = (0..=300).collect();
    lens.extend([1000, 4095, 4096, 8190, 8191, 8192, 8193, 16383, 16384, 16385, 65535, 65536, 1 << 20, (1 << 20) + 1]);
    let cases: Vec<(usize, u8)> = lens.iter().flat_map(|&l| (0..6u8).map(move |k| (l, k))).collect();
    let lc = cases
        .par_iter()
        .fold(LocalClasses::new, |mut lc, &(len, kind)| {
            let bytes: Vec<u8> = (0..len).map(|i| 1 + (i % 251) as u8).collect();
            let (a, z) = (Field::Int(-65), Field::Str(b"z".to_vec()));
            let f = match kind % 3 {
                0 => Field::Data(bytes),
                1 => Field::Str(bytes),
                _ => Field::Raw(bytes),
            };
            let seq: Vec<&Field> = if kind < 3 { vec![&f] } else { vec![&a, &f, &z] };
            lc.eval();
            let what = format!("{} of {} bytes{}", ["data", "string", "raw"][(kind % 3) as usize], len, if kind < 3 { "" } else { " between an int and a string" });
            match vp_core::catch(|| check_sequence_caps(&seq, len <= 300)) {
                Ok(Ok(_)) => lc.class(&format!("length:{}:prefix-bytes-{}", ["data", "string", "raw"][(kind % 3) as usize], if kind % 3 == 0 { ref_encode(len as i32).1 } else { 0 }), || json!({"len": len})),
                Ok(Err(d)) => {
                    run.violation("c08:packer-field-length", &format!("{}: {}", what, d), json!({"field": what}));
                }
                Err(p) => {
                    run.violation(&format!("c08:packer:{}", vp_core::panic_sig(&p)), &format!("{}: {}", what, p), json!({"field": what}));
                }
            }
            lc
        })
        .reduce(LocalClasses::new, |a, b| a.merge(b));
    run.merge_classes(lc);
}

fn demo_and_ints(run: &Arc<Run>) {
    // demo mode: 0..3 zero padding bytes are silent, >= 4 or non-zero warn
    for body_ints in 0..3usize {
        for pad in 0..=8usize {
            for nonzero_at in std::iter::once(None).chain((0..pad).map(Some)) {
                let mut data = Vec::new();
                for i in 0..body_ints {
                    let (e, l) = ref_encode(64 * i as i32 + 5);
                    data.extend_from_slice(&e[..l]);
                }
                let body = data.len();
                data.extend(std::iter::repeat(0).take(pad));
                if let Some(k) = nonzero_at {
                    data[body + k] = 1;
                }
                if data.len() % 4 != 0 {
                    continue;
                }
                run.add_evals(1);
                let r = vp_core::catch(|| {
                    let mut u = Unpacker::new_from_demo(&data);
                    let mut w: Vec<Warning> = Vec::new();
                    for _ in 0..body_ints {
                        u.read_int(&mut w).unwrap();
                    }
                    let mut ex: Vec<ExcessData> = Vec::new();
                    u.finish(&mut ex);
                    (ex.len(), u.is_empty())
                });
                let expect_warn = pad >= 4 || nonzero_at.is_some();
                match r {
                    Ok((n, empty)) if (n > 0) == expect_warn && empty => run.class(&format!("demo-padding:warn{}", expect_warn), || json!({"padding": pad, "nonzero_at": nonzero_at})),
                    other => {
                        run.violation("c08:demo-padding", &format!("padding {} nonzero {:?}: {:?}", pad, nonzero_at, other), json!({"data": vp_core::hex(&data)}));
                    }
                }
            }
        }
    }
    // integer sequences (IntUnpacker)
    let vals = [0, 1, -1, i32::MIN, i32::MAX];
    for n in 0..=3usize {
        for idx in 0..5usize.pow(n as u32) {
            let seq: Vec<i32> = (0..n).map(|k| vals[(idx / 5usize.pow(k as u32)) % 5]).collect();
            for reads in 0..=n + 1 {
                run.add_evals(1);
                let mut u = IntUnpacker::new(&seq);
                let mut ok = true;
                for k in 0..reads {
                    let r = u.read_int();
                    ok &= if k < n { r == Ok(seq[k]) } else { r.is_err() };
                }
                ok &= u.as_slice() == &seq[reads.min(n)..];
                let mut ex: Vec<ExcessData> = Vec::new();
                u.finish(&mut ex);
                ok &= ex.is_empty() == (reads >= n) && u.is_empty();
                if ok {
                    run.class(&format!("int-unpacker:n{}:reads{}", n, reads.min(n + 1)), || json!({"ints": seq, "reads": reads}));
                } else {
                    run.violation("c08:int-unpacker", &format!("{:?} with {} reads", seq, reads), json!({"ints": seq, "reads": reads}));
                }
            }
        }
    }
}

fn main() {
    let run = Run::new("C08", "exploration");
    encode_all(&run);
    decode_sweep(&run, run.tier);
    sequences(&run, run.tier.pick(3, 4));
    lengths(&run);
    demo_and_ints(&run);
    run.assume("reference encoder/decoder written from doc/int.md; for non-zero padding bits the documentation prescribes no value, only that the encoding is not canonical (a warning must be raised)");
    run.finish(
        "all 2^32 integers encoded (length 1..5, byte-equal to the reference encoder, decode back, no warning, nothing left, shortest); every byte string of length 0..3 decoded against the reference decoder, 4/5-byte strings with first and last byte exhaustive and middle bytes from 10 boundary patterns (thorough: every 4-byte string and all 2^36 five-byte encodings); all sequences of <=3 (4) writes over a 16-field alphabet (integers, strings, length-prefixed data, raw bytes, a UUID, a rest-of-message field) into slice/Vec/ArrayVec of every capacity, read back, every truncation; strings / length-prefixed data / raw bytes of every length 0..300 and on both sides of 8192, 16384, 65536 and 2^20, alone and between two other fields; demo padding; IntUnpacker",
        true,
    );
}
