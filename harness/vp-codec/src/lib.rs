pub fn frequencies_file() -> [u32; 256] {
    let text = std::fs::read_to_string("/repo/huffman/data/frequencies").expect("huffman/data/frequencies");
    let v: Vec<u32> = text.lines().map(|l| l.trim().parse().unwrap()).collect();
    assert_eq!(v.len(), 256);
    let mut a = [0u32; 256];
    a.copy_from_slice(&v);
    a
}
