#!/bin/bash
# tools/seed_run.sh <patch.diff> <tier> <Cxx> [Cxx...]
# Apply a seeded change to /repo, run the given checks, undo the change. Prints one line per check.
patch="$1"; tier="$2"; shift 2
export VERIF_EVIDENCE_DIR=/tmp/seed-evidence VERIF_REPLAYS_DIR=/tmp/seed-replays; mkdir -p $VERIF_EVIDENCE_DIR $VERIF_REPLAYS_DIR
cd /repo || exit 2
if [ -n "$(git status --porcelain --untracked-files=no)" ]; then echo "/repo is not clean"; exit 2; fi
git apply "$patch" || { echo "patch does not apply"; exit 2; }
for id in "$@"; do
  s=$(date +%s)
  out=$(/verif/run "$id" "$tier" 2>&1); rc=$?
  e=$(date +%s)
  echo "$id $tier rc=$rc $((e-s))s $(echo "$out" | grep -E 'sig:' | head -3 | tr '\n' ' ' | cut -c1-300)"
done
git -C /repo checkout -- .
git -C /repo status --porcelain --untracked-files=no | head -3
