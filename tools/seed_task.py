#!/usr/bin/env python3
"""tools/seed_task.py <round-suffix> <hints.json>  -> writes /tmp/seedout/<Cxx>-<suffix>/TASK.md for every property.
hints.json: {"C01": "extra direction for the author", ...} (a property without a hint gets the default theme)."""
import json,sys
suf=sys.argv[1]; hints=json.load(open(sys.argv[2]))
default=hints.get("default","")
T='''# Task: write one property-breaking change to libtw2 (a mutation for testing a verifier)

You work ONLY inside the git worktree `{wt}` (a checkout of heinrich5991/libtw2, Rust libraries for the
Teeworlds/DDNet network protocol and file formats). Do not read or write anything under /verif or /repo, and do not
look at other directories under /tmp/seed or /tmp/seedout. There is no network; always pass `--offline` to cargo and set
`CARGO_NET_OFFLINE=true CARGO_BUILD_JOBS=4`. The default target directory inside the worktree is fine.

## The property (this is all you get; find the code that implements it yourself)

**{title}**

{statement}

## What to produce

A small, realistic change to the library source in the worktree (the kind of slip or "clean-up" a maintainer could
make and a reviewer could wave through) such that:

1. the workspace still compiles, also with `RUSTFLAGS="--cfg libtw2_verif"` for the crate you touch (the repository
   contains a little `#[cfg(libtw2_verif)]` instrumentation; leave it alone, do not rely on it, keep it compiling);
2. the repository's whole test suite still passes: `cargo test --workspace --no-fail-fast --offline` (run it, all of it;
   206 tests pass on the unchanged tree). Do not edit, delete or disable existing tests;
3. the property above is violated by the changed code — but only under specific circumstances. It must NOT show up in
   ordinary use at once (a plain handshake and a few messages, a simple round trip of a typical value). It must need
   something specific to manifest.

{hint}

Do not make the change detectable only through private internals: the violation must be observable through the
crate's public API (what an application using the library could see), in the terms the property uses.
Do not add dead code, feature flags, environment variables or anything keyed to a magic constant that has no reason
to be in the code ("if x == 0xdeadbeef"); the faulty behaviour should follow naturally from the slip.

4. a demonstration: a NEW integration test file (under `<crate>/tests/<name>.rs`, public API only; if public API
   really cannot reach it, a new `#[cfg(test)]` module file is acceptable) that FAILS with your change and PASSES on
   the unchanged tree. Verify both yourself (`git stash` / `git apply -R` the source change, keep the test).

## Deliverables — write them to `{out}/`

* `patch.diff` — `git diff` of the library source change ONLY (not the demonstration test). It must apply to a clean
  checkout with `git apply`.
* `demo/` — the demonstration test file(s), plus `demo/README.md` saying where the file goes and the exact cargo
  command that runs it.
* `meta.json` — {{"property": "{pid}", "summary": "<what was changed, 1-3 sentences>", "needs": "<what exactly is
  needed for the violation to manifest>", "files_changed": [...], "demo_dst": "<path of the test file relative to the
  worktree root>", "demo_cargo_args": ["-p", "<crate>", "--test", "<name>"], "tests_run": ["<command: result>", ...],
  "demo_fails_with_change": true, "demo_passes_without_change": true}}

Leave the worktree with your change and the demo applied. In your final answer, say in a few lines what you changed
and what it needs to manifest. If after honest effort you cannot find a change that satisfies all of the above, say so
instead of delivering something weaker.
'''
for l in open('/verif/properties.jsonl'):
    p=json.loads(l); pid=p['id']; sid=f"{pid}-{suf}"
    h=hints.get(pid,default)
    open(f'/tmp/seedout/{sid}/TASK.md','w').write(T.format(wt=f'/tmp/seed/{sid}',out=f'/tmp/seedout/{sid}',title=p['title'],statement=p['statement'],pid=pid,hint=("## Direction for this change\n\n"+h) if h else ""))
    print(sid)
