#!/usr/bin/env python3
"""tools/seed_readme.py: regenerate /verif/seeded/README.md and the table between the
<!-- seeded-table --> markers of DESIGN.md from the seeded/*/meta.json files."""
import json,glob,re
rows=[]
for f in sorted(glob.glob('/verif/seeded/*/meta.json')):
    m=json.load(open(f)); sid=f.split('/')[3]
    summ=(m.get('summary') or '').replace('\n',' ').replace('|','/')
    short=summ if len(summ)<=200 else summ[:197]+'...'
    rows.append(dict(id=sid,summ=summ,short=short,files=', '.join(m.get('files_changed') or []),caught=', '.join(m['caught_by_quick']),missed=', '.join(m['missed_before_strengthening']) or '-',note=(m.get('note') or '').replace('|','/')))
n=len(rows); missed=[r for r in rows if r['missed']!='-']
head='''# Seeded changes

Each directory holds one change to /repo that breaks the property named by its first three
characters while the workspace still compiles and the repository's own suite (206 tests) still
passes, written by an independent sub-agent that saw only the property text and a scratch
worktree of /repo (nothing from /verif). Round 1 (`Cxx`) left the place of the change to the
author; rounds 2 and 3 (`Cxx-b`, `Cxx-c`) named an area of the code for each author (taken from
the property's own list of files) so that the changes spread over the code base. Files:
`patch.diff` (apply with `git -C /repo apply`, undo with `git -C /repo checkout -- .`), `demo/`
(a test that fails with the change and passes without it, with a README saying where it goes),
`agent_meta.json` (the author's description), `meta.json` (what I confirmed and which checks
report it). None of them is ever committed to /repo.

How each was confirmed: `tools/seed_verify.sh` creates a scratch worktree of /repo HEAD under /tmp,
applies the patch, runs `cargo test --workspace --no-fail-fast --offline` (must be 206 passed / 0
failed), runs the demonstration (must fail), reverses the patch, runs it again (must pass), and
removes the worktree. `tools/seed_run.sh <patch> quick <checks>` applies the patch to /repo, runs
the named checks (evidence and replays redirected away from /verif/evidence), and restores /repo;
`tools/seed_run_iso.sh` does the same against a scratch copy of /repo and of the harness, leaving
/repo untouched. `tools/seed_selftest.sh` repeats that for every directory here and fails unless
every listed check exits 1.

'''
t='| seed | files | change | reported by (quick tier) | missed before strengthening |\n|---|---|---|---|---|\n'
for r in rows:
    t+=f"| {r['id']} | {r['files']} | {r['short']} | {r['caught']} | {r['missed']} |\n"
less='\n## What each miss taught\n\n'
for r in rows:
    if r['missed']!='-' or 'exit' in r['note']:
        less+=f"- **{r['id']}**: {r['note']}\n"
tail='''
## Changes written but not kept

- Round 3, C08: `Unpacker::read_raw` no longer exhausts the unpacker when it fails, so later reads on
  the same unpacker succeed on the leftover bytes. The repository's suite passes with it and the
  author's demonstration fails with it, but the demonstration asserts the library's *current*
  behaviour after an error, which the property does not state (it speaks of values read back
  identically and of never reading past what was written; a read after a reported error returns
  bytes that *were* written). Not a violation of C08 as written, therefore not kept and no check
  was built for it.
'''
open('/verif/seeded/README.md','w').write(head+f'{n} changes, {n-len(missed)} reported by the checks as they stood, {len(missed)} only after a check was extended.\n\n'+t+less+tail)
# DESIGN table
dt='| seed | files | reported by | first run |\n|---|---|---|---|\n'
for r in rows:
    first='caught' if r['missed']=='-' else 'missed -> check strengthened'
    dt+=f"| {r['id']} | {r['files']} | {r['caught']} | {first} |\n"
d=open('/verif/DESIGN.md').read()
if '<!-- seeded-table -->' in d:
    d=re.sub(r'<!-- seeded-table -->.*?<!-- /seeded-table -->','<!-- seeded-table -->\n'+dt+'<!-- /seeded-table -->',d,flags=re.S)
    open('/verif/DESIGN.md','w').write(d)
print(n,'seeds,',len(missed),'missed at first')
