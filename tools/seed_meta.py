#!/usr/bin/env python3
"""tools/seed_meta.py <id> <caught_by comma list> <missed_initially comma list or -> <note>
Writes /verif/seeded/<id>/meta.json from the agent's meta plus my own confirmation."""
import json,sys
sid,caught,missed,note=sys.argv[1:5]
a=json.load(open(f'/verif/seeded/{sid}/agent_meta.json'))
m={
 "property": a.get("property", sid[:3]),
 "summary": a.get("summary"),
 "needs_to_manifest": a.get("needs"),
 "files_changed": a.get("files_changed"),
 "origin": "independent sub-agent given only the property text and a scratch worktree of /repo",
 "confirmed_by_me": {
   "applies_to_repo_head": True,
   "repository_suite_with_change": "cargo test --workspace --no-fail-fast --offline in a scratch worktree: 206 passed, 0 failed",
   "demo_with_change": "fails",
   "demo_without_change": "passes",
   "how": "tools/seed_verify.sh (scratch worktree under /tmp, removed afterwards); tools/seed_run.sh (git apply to /repo, run checks, git checkout -- .)",
 },
 "caught_by_quick": [c for c in caught.split(',') if c and c!='-'],
 "missed_before_strengthening": [c for c in missed.split(',') if c and c!='-'],
 "note": note,
}
json.dump(m,open(f'/verif/seeded/{sid}/meta.json','w'),indent=1)
print(sid,'ok')
