#!/bin/bash
# thorough tier of every check (changed ones first), evidence and replays redirected to scratch
export VERIF_EVIDENCE_DIR=/tmp/thorough-ev VERIF_REPLAYS_DIR=/tmp/thorough-rp; mkdir -p $VERIF_EVIDENCE_DIR $VERIF_REPLAYS_DIR
for id in ${@:-C13 C02 C01 C15 C12 C18 C16 C09 C07 C11 C08 C20 C04 C05 C06 C10 C14 C17 C03 C19}; do
  s=$(date +%s); out=$(/verif/run $id thorough 2>&1); rc=$?; e=$(date +%s)
  echo "$id thorough rc=$rc $((e-s))s $(echo "$out" | grep -E "^$id thorough" | tail -1 | cut -c1-150)"
  if [ $rc -ne 0 ]; then echo "$out" | grep -E "VIOLATION|MACHINERY|sig:|detail:" | head -6; fi
done
echo "all done"
