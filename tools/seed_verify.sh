#!/bin/bash
# tools/seed_verify.sh <seed-dir> <demo-src> <demo-dst-relative> <demo cargo args...>
# 1. scratch worktree at /repo HEAD (kept between calls so that only what changed is rebuilt;
#    remove it with tools/seed_verify.sh --clean), apply patch, run the WHOLE repository suite (must pass);
# 2. copy the demo, run it (must FAIL with the change);
# 3. reverse the patch, run the demo (must PASS).
wt=/tmp/sv-wt
export CARGO_TARGET_DIR=/tmp/sv-target CARGO_NET_OFFLINE=true
if [ "$1" = "--clean" ]; then git -C /repo worktree remove --force $wt 2>/dev/null; rm -rf /tmp/sv-target; exit 0; fi
seed="$1"; demosrc="$2"; demodst="$3"; shift 3
if [ ! -d $wt ]; then git -C /repo worktree add -q --detach $wt HEAD || exit 2; fi
cd $wt || exit 2
git checkout -q --detach "$(git -C /repo rev-parse HEAD)" && git checkout -q -- . && git clean -fdq || exit 2
git apply "$seed/patch.diff" || { echo "PATCH DOES NOT APPLY"; exit 2; }
cargo test --workspace --no-fail-fast --offline > /tmp/sv-suite.log 2>&1
echo "suite with change: $(grep -E '^test result' /tmp/sv-suite.log | awk '{p+=$4; f+=$6} END {print "passed",p,"failed",f}') $(grep -cE '^error' /tmp/sv-suite.log) build errors"
mkdir -p "$(dirname "$demodst")"; cp "$demosrc" "$demodst"
cargo test --offline "$@" > /tmp/sv-demo1.log 2>&1; echo "demo WITH change: rc=$? $(grep -E '^test result|panicked' /tmp/sv-demo1.log | head -2 | tr '\n' ' ' | cut -c1-200)"
git apply -R "$seed/patch.diff"
cargo test --offline "$@" > /tmp/sv-demo2.log 2>&1; echo "demo WITHOUT change: rc=$? $(grep -E '^test result' /tmp/sv-demo2.log | head -1)"
git checkout -q -- . ; git clean -fdq
