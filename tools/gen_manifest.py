#!/usr/bin/env python3
"""Regenerate /verif/MANIFEST.json from the table below (kept next to the code so the
manifest can never drift from what ./run supports)."""
import json, subprocess, os

HOOK_COMMITS = ["61b94ce", "8f421be"]
FIX_COMMITS = [l.split()[0] for l in subprocess.check_output(["git","-C","/repo","log","--oneline","--grep=^fix:"]).decode().splitlines()]

# id -> (engine, category, technique, text, note, design_ref)
CHECKS = {}

def add(id, engine, category, technique, text, note, ref):
    CHECKS[id] = dict(engine=engine, category=category, technique=technique, text=text, note=note, ref=ref)

add("C01", "X", "model_checking",
    "explicit-state model checking (stateright BFS) over two real Connection objects + lossy network; budgets bound faults (loss, duplication, clock advances, datagrams the environment refuses to send)",
    "Every reachable state of two real endpoints (0.6+token, 0.6 without token, 0.7) joined by a network that may deliver in any order, drop and duplicate, within per-state budgets (sends, drops, dups, clock advances); monitors compare every delivered chunk with the submitted list. A coverage statement over all schedules within the budgets, which is what the property quantifies over.",
    "Trusted: stateright 0.31 search and its 64-bit fingerprints (a collision can only hide a state); the verif_view hook renders the complete connection state; bounds as listed in the evidence (configurations).",
    "DESIGN.md 3/C01")

add("C02", "X", "model_checking",
    "explicit-state model checking (stateright) + fair-suffix ranking executed on the real objects from every unique state; payload-length sweep under a wall-clock watchdog; configurations starting after 1022/1023 chunks (wrapped sequence numbers), configurations with datagrams the environment refuses to send; the multi-peer model: Net::needs_tick against per-address reference deadlines in every reachable state",
    "From every reachable state of the two-endpoint model (i.e. after every finite fault prefix within the budgets) the fair suffix is executed on the real endpoints and must reach the goal (ready, all vital chunks delivered and acknowledged, nothing queued) within 24 rounds; the deadline invariant is checked on every state; every call runs under a watchdog; every payload length 0..1391 and boundary pairs are lost once and must be recovered.",
    "Trusted: stateright search; the fair scheduler defined in model.rs (rank); watchdog limit 30 s per call; bounds in the evidence.",
    "DESIGN.md 3/C02")
add("C03", "X", "model_checking",
    "explicit-state model checking (stateright); per unique state an exhaustive sweep of a foreign-datagram alphabet against a copy of the real endpoint; exhaustive sweep of structured token differences (650 000 per datagram kind and side; thorough 100 million)",
    "On every reachable state with a fixed token (0.6+token, 0.7; client and server), ~500-1500 foreign datagrams (every packet kind x wrong/absent tokens incl. all single-bit flips, compressed forms, truncations and byte substitutions of valid datagrams) are fed to a copy of the real endpoint; events, replies, randomness use and the complete state view must be unchanged. Reserved tokens: all scripted randomness sequences of length <=3. Token values: on both sides of an online pair, four datagram kinds with the agreed token XOR d for every d with one or two non-zero bytes, three cancelling bytes, four equal bytes, every rearrangement of the token's bytes (thorough: every three-byte d, every four-byte d that cancels under XOR or addition).",
    "Trusted: independent classifier (wire.rs, from doc/packet*.md + bundled C++ Huffman reference) decides which datagrams carry the agreed token; completeness of verif_view.",
    "DESIGN.md 3/C03")
add("C04", "E", "exploration",
    "bounded exhaustive enumeration of API call sequences (depth 3/4 over 66 operations, incl. sends the environment refuses) on a real endpoint x 6 payload contents; families: many small chunks, packets filled to the brim, unlucky random source, 2100-chunk runs across the sequence wrap; wire monitor inside the explicit-state model",
    "All API sequences up to the depth on an online endpoint of each variant, n=1..700 small chunks without flush, and every datagram emitted in the explored two-endpoint model are read back by the library's own reader: <=1400 bytes, no error, no warning, chunk count, chunks bit-identical to what was queued; refusals leave the connection usable; nothing panics.",
    "Trusted: the oracle uses the library's own reader by definition of the property; payload lengths are a boundary set, not every length, in the sequence part (every length is covered by C02's sweep).",
    "DESIGN.md 3/C04")

add("C05", "E", "exploration",
    "exhaustive enumeration of header bit patterns and field tuples; bounded exhaustive packet families (kind x token x ack x every length x 4 content classes)",
    "All 2^24 0.6 packet headers, all chunk headers of both versions, 5 x 2^24 0.7 packet headers, all in-range field tuples, and every packet kind x token x ack x payload length 0..max x 4 content classes are packed/unpacked or written/read back and compared; canonical <=> warning-free is decided per bit pattern from doc/packet*.md.",
    "Trusted: canonical-pattern predicates transcribed from doc/packet.md and doc/packet7.md; payload contents limited to 4 classes (zeros, 'abc', counter, fixed LCG stream).",
    "DESIGN.md 3/C05")
add("C06", "E", "exploration",
    "bounded exhaustive enumeration of attacker datagrams (all short strings, all field/pair corruptions, truncations, extensions, oversize compressed payloads) against every reader entry point",
    "Every input of the listed finite families goes through Packet::read (all token hints), read_panic_on_decompression, decompress_if_needed, is_initial and ChunksIter of both versions; oracle: returns, no panic, pointer ranges of returned slices inside input or scratch buffer, fields in range, accepted values (packets, and every chunk the iterator hands out) write and re-read equal; scratch buffers of 1400 / 1401 / 2048 bytes.",
    "Trusted: the families are a bound (strings >3 bytes only through structured corruption); memory safety beyond pointer-range checks is covered by the ASan/Miri runs of C19.",
    "DESIGN.md 3/C06")

add("C20", "X", "model_checking",
    "explicit-state model checking (stateright BFS) of one real Net against per-address reference connections (differential oracle on every transition); alphabet includes deferred decisions, peer-id counter wrap, refused close datagrams, injected datagrams incl. unusual connect requests",
    "Every reachable state of a real Net (accepting and non-accepting) serving 2-3 addresses with real remote connections, within budgets; after each transition events, outgoing datagrams with destination, needs_tick and the complete per-peer state are compared with per-address reference connections fed the projected history; peer ids distinct (also across the 2^32 wrap).",
    "Trusted: stateright search; the reference is the same Connection code run in isolation (this check is about routing/bookkeeping in Net, not about the connection logic); the application reacts to Connect events immediately.",
    "DESIGN.md 3/C20")

add("C07", "E", "exploration",
    "bounded exhaustive enumeration of compressor/decompressor inputs x output capacities x code tables, differential against the bundled C++ reference; growable buffers reused after a failed call",
    "Per code table (built-in, shipped file, 15 synthetic vectors): all inputs of length <=2, every length 0..4096 x 4 content classes, all decoder inputs of length <=2 (<=3 thorough) x every capacity between canaries, prefixes/extensions/substitutions of valid streams; round trip, exact predicted lengths, byte identity with the C++ reference, agreement whenever the reference decodes, capacity errors exactly when needed.",
    "Trusted: the bundled C++ reference as linked by the repository's own dev-dependency; tables the constructor refuses (code depth > 24) are skipped.",
    "DESIGN.md 3/C07")
add("C08", "E", "exploration",
    "exhaustive enumeration (all 2^32 integers; all short byte strings; thorough: all 2^36 five-byte encodings) against an independent reference codec; bounded exhaustive packer write sequences x capacities",
    "Encoding decided for every 32-bit integer; decoding decided for every byte string of length <=3 and structured 4/5-byte strings (thorough: every 4-byte string and every 5-byte encoding) against a reference decoder written from doc/int.md, including canonical <=> warning-free; packer/unpacker sequences of <=3/4 fields into every capacity of three backing stores with read-back, truncation and poisoning; strings, length-prefixed data and raw bytes of every length 0..300 and around 8192, 16384, 65536, 2^20.",
    "Trusted: reference codec transcribed from doc/int.md.",
    "DESIGN.md 3/C08")

add("C09", "E", "exploration",
    "exhaustive enumeration of all ordered pairs of snapshots over small key universes (raw layer) and of seven worlds with UUID-identified types x routes x fresh / reused apply targets (typed layer); grid of item counts x shared keys up to 1024+1024 delta entries; differential against the bundled DDNet C++ reference",
    "All ordered pairs over universes of 4/5 keys x 3/4 data vectors (fixed-size universes: every pair; variable-size universes: pairs with a size change hit the recorded known finding): delta create -> apply directly, via bytes, via ints, the DDNet reference's delta applied here, serialization equal to the reference builder; limit families at 1024 items / 64 KiB; universes with keys of type 0 and ids on both sides of 0x4000 / 0x8000; insertion orders, dirty target objects.",
    "Trusted: bundled DDNet reference within its own domain (type ids <= 0x3fff); values from a 6-element alphabet; items added in ascending key order.",
    "DESIGN.md 3/C09")
add("C10", "E", "exploration",
    "bounded exhaustive enumeration of builder scripts (depth 4/5 over 45 operations) with a plain-map reference model and differential routes (bytes / ints / delta)",
    "Every builder script up to the depth is built, serialized to bytes and ints, read back and compared through items(), item(type,id) over the whole key alphabet (ordinal and UUID types) and crc(); copies produced by read_with_delta likewise; the received copy is recycled and the UUID numbering observed through the next serialization; value families: ids, words, counts and sizes on both sides of every length boundary of the integer code, full-size snapshots of every encoded width, 200..511 UUID types, through both wire forms.",
    "Trusted: small alphabets (5 types, 3 ids, 3 data vectors); limits by linear families.",
    "DESIGN.md 3/C10")

add("C11", "E", "exploration",
    "bounded exhaustive enumeration of parser inputs (all short int sequences, all single/neighbouring-double field corruptions, truncations, hostile structures) + all pairs of a pool of accepted snapshots and deltas; every input also read into used objects and into objects whose previous read was refused half-way; allocation measured by a counting allocator",
    "Every input of the finite families is parsed as snapshot and as delta in int and byte form; every accepted delta is applied to every accepted snapshot of a pool and Delta::create runs between all pool pairs; oracle: returns, no panic, allocation <= 64 x input + 64 KiB, accepted => <=1024 items and <=64 KiB, write/read equality, follow-up operations (items, item, crc, write, recycle + add_item).",
    "Trusted: counting global allocator with thread-local counters; pool limited to ~330 snapshots x ~320 deltas.",
    "DESIGN.md 3/C11")

add("C12", "E", "exploration",
    "exhaustive enumeration of message sequences (all sequences of length <= n+2 over parts of the current, an older and a newer tick and messages with impossible part numbers, n <= 5/6 parts) against a reference receiver; listed permutation families up to 32 parts",
    "For every part count up to 5 (quick) / 6 (thorough), data lengths on both sides of each 900-byte boundary and 6 tick/base pairs, every sequence - hence every permutation with every duplication pattern, interleaved with older and newer ticks - is fed to a real DeltaReceiver and compared step by step with a reference receiver; zero warnings demanded. For 7..32 parts only listed families are run (labelled so in the evidence). For n <= 3 additionally 71 tick/base pairs on both sides of every integer-length boundary and 5 settings with older / newer ticks more than 2^31 away (negative ticks).",
    "Trusted: reference receiver (set of part numbers of the newest tick); messages produced by the real sender delta_chunks.",
    "DESIGN.md 3/C12")
add("C13", "X", "model_checking",
    "explicit-state model checking (stateright BFS) of a real sender Storage and a real receiver Manager over two lossy channels; alphabet includes reset() of either side; linear histories of 101..250 snapshots",
    "Every reachable state within budgets (ticks, drops, duplications, acknowledgements) of the real sender/receiver pair; worlds contain ordinal items, two UUID types of different sizes, a multi-part snapshot, an empty and an all-zero item, three worlds with equal checksums and three whose ids / type ids sit on the length boundaries of the integer code; linear histories of 101..250 snapshots; accepted snapshots are compared with the sender's world through items() and item(type,id); errors must not move the acknowledged tick to that tick; panics are violations (one recorded known finding).",
    "Trusted: stateright search; state key = history hash of each real object (over-fine, cannot hide states).",
    "DESIGN.md 3/C13")

add("C15", "E", "exploration",
    "bounded exhaustive enumeration of chunk sequences (raw level) and world histories (typed level), incl. calls the writer refuses, game messages and long messages, written by the real writers into memory and read back by the real readers",
    "All raw chunk sequences up to depth 3/4 over ticks on both sides of the inline-delta limit, key frames, payloads with compressed sizes around 29/30 and 255/256, padded messages; every payload size family incl. the largest representable; all header string lengths; all typed world histories up to depth 4/5 over 5 object sets (ordinal + two UUID-typed sizes) x tick steps {+1,+250,+251} x non-increasing ticks; every raw tick gap 1..1100 and around every power of two; every pair of absolute ticks out of 31 values from i32::MIN to i32::MAX.",
    "Trusted: round trip through the library's own reader is the property; one recorded known finding (UUID type number reuse across consecutive snapshots panics in Delta::create).",
    "DESIGN.md 3/C15")
add("C16", "E", "exploration",
    "bounded exhaustive enumeration of file corruptions produced from an independent datafile writer; every accessor traversed after opening; environment faults (short / failed callback reads) enumerated per call and cut length",
    "A family of ~300 well-formed v3/v4 files from an independent writer must be returned exactly (raw reader with in-memory callbacks and file reader via memfd); every header/table/offset/size/item word set to ~20 boundary values, consistent unaligned item resizes, truncation at every byte, data byte flips; a hand-built valid map with every item word set to 18 boundary values and data blocks resized; all datafile and map accessors are called on whatever opens.",
    "Trusted: independent writer transcribed from doc/datafile.md; zlib via the repository's own binding; sanitizer run of the same enumerator is part of C19's thorough tier.",
    "DESIGN.md 3/C16")
add("C17", "E", "exploration",
    "bounded exhaustive enumeration of server histories x read fragmentations (schedules of read sizes chosen by the harness through the cfg hook)",
    "All valid histories up to depth 4/5 over a 20-message alphabet (tick skips up to i32::MAX), each decoded under every 1/2-piece fragmentation, byte-by-byte, zero-length reads at every position and header cuts; items must be identical and match a reference decoding (nesting, strictly increasing ticks equal to the doc pseudo-code, running sums); truncations and byte substitutions give value-or-error independent of fragmentation; long streams around the 8192-byte buffer boundary; histories the reference rejects are fed as byte streams too (items or error, no panic, fragmentation-independent).",
    "Trusted: independent encoder and tick/position reference from doc/teehistorian.md; cfg(libtw2_verif) re-export of the incremental reader.",
    "DESIGN.md 3/C17")

add("C14", "E", "exploration",
    "bounded exhaustive enumeration of canonical encodings built by an independent interpreter of the protocol descriptions (every codec x boundary values per member, singly and in pairs) against the generated codecs",
    "For the four (description, crate) pairs every system/game/connless message and snapshot object (~410 codecs): baseline + every member swept over the boundaries of its declared type singly and in pairs (thorough: triples); accepted by the description => decodes without warnings and re-encodes identically; violated constraint => rejected; truncations, excess words, all byte strings of length <=2 after every message id => value or error, no panic.",
    "Trusted: the interpreter's per-kind wire conventions (varint, NUL-terminated string, length-prefixed data, 32-bit object words); flags and invalid-optional cases are not judged. Known findings: four snapshot objects with boolean members re-expose padding bytes.",
    "DESIGN.md 3/C14")
add("C18", "E", "exploration",
    "bounded exhaustive enumeration of datagram field values and of part orders (all sequences up to parts+2 for <= 4 parts; listed permutation families beyond), with parts of another server's answer in between",
    "Each of the thirteen response kinds with every numeric field set to 25 boundary/garbage values, truncations, client counts / offsets / packet numbers around 16, 24 and 64; multi-part infos of servers with N clients merged in every order with every duplication for <= 4 parts against a 'set of parts seen' reference: complete exactly when every part was seen, every client exactly once.",
    "Trusted: datagrams built from doc/serverinfo_extended.md and the legacy 64-player layout; parts come from a consistent server.",
    "DESIGN.md 3/C18")
add("C19", "E", "exploration",
    "bounded exhaustive enumeration of operation sequences x backing stores against a Vec-with-capacity model; Miri and AddressSanitizer as monitors on the enumerated executions",
    "All sequences of <= 3/4 operations (writes, extends, reader fills, nested views, early exit) x take/drop on 83 backing-store configurations (Vec, ArrayVec, slice, slice reference, capped views with every cap) compared with a reference model incl. canaries; a second family of long writes (1..127 bytes, depth <= 3) on 53 stores of 63..200 bytes; the same enumerator under Miri; thorough: this and the C05/C06/C07/C11/C16/C17 enumerators in an AddressSanitizer build.",
    "Trusted: Miri (stacked borrows disabled: the property is about out-of-bounds/use-after-free, not the aliasing model) and ASan as run-time monitors; C/C++ reference libraries and std are not instrumented.",
    "DESIGN.md 3/C19")

NOT_YET = {}

def main():
    props = [json.loads(l) for l in open("/verif/properties.jsonl")]
    checks = []
    na = []
    for p in props:
        id = p["id"]
        if id in CHECKS:
            c = CHECKS[id]
            checks.append({
                "property_id": id,
                "quick_cmd": f"./run {id} quick",
                "thorough_cmd": f"./run {id} thorough",
                "evidence_file": f"/verif/evidence/{id}.json",
                "replay_cmd_template": "./run replay {path}",
                "engine": c["engine"],
                "level_claimed": {"category": c["category"], "text": c["text"], "design_ref": c["ref"]},
                "level_note": c["note"],
                "technique": c["technique"],
            })
        else:
            na.append({"property_id": id, "reason": NOT_YET.get(id, "check not built yet in this round (planned, see DESIGN.md section 3); not claimed until it runs")})
    m = {
        "version": 1,
        "setup_cmd": "cd /verif/harness && CARGO_NET_OFFLINE=true cargo build --release --offline --workspace && (CARGO_TARGET_DIR=/verif/target-miri MIRIFLAGS=-Zmiri-disable-stacked-borrows cargo +nightly miri run --offline -p vp-buffer-pure --bin buffer_enum -- 0 >/dev/null 2>&1 || true)",
        "hooks": {
            "guard": "libtw2_verif",
            "enable": "RUSTFLAGS=--cfg libtw2_verif (set in /verif/harness/.cargo/config.toml; the harness path-depends on /repo crates)",
            "baseline_off_cmd": "cd /repo && cargo test --workspace --no-fail-fast --offline",
            "source_commits": HOOK_COMMITS,
            "add_only": True,
        },
        "engines": [
            {"name": "X", "path": "/verif/harness/vp-net (model.rs), /verif/harness/vp-snap", "serves_properties": [k for k, v in CHECKS.items() if v["engine"] == "X"],
             "kind_free_text": "explicit-state model checking with stateright 0.31: states own the real library objects, a transition is one real call"},
            {"name": "E", "path": "/verif/harness/*", "serves_properties": [k for k, v in CHECKS.items() if v["engine"] == "E"],
             "kind_free_text": "bounded exhaustive enumeration of inputs / operation sequences on the real code (rayon), oracle = independent reference or differential route"},
        ],
        "checks": checks,
        "not_applicable": na,
        "notes": "Fix commits in /repo (see known_findings.json): " + ", ".join(FIX_COMMITS) + ". All checks: ./run <id> <quick|thorough>; exit 0 held / 1 VIOLATION / 2 machinery error. Known findings: /verif/known_findings.json.",
    }
    json.dump(m, open("/verif/MANIFEST.json", "w"), indent=1)
    print("checks:", len(checks), "not_applicable:", len(na))

if __name__ == "__main__":
    main()
