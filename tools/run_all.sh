#!/bin/bash
# run every check's quick (or given) tier, print a one-line summary each
tier="${1:-quick}"
for i in $(seq -w 1 20); do
  id="C$i"
  s=$(date +%s.%N)
  out=$(/verif/run $id $tier 2>&1); rc=$?
  e=$(date +%s.%N)
  printf "%s rc=%d %.1fs %s\n" $id $rc $(echo "$e - $s" | bc) "$(echo "$out" | grep -E "^$id $tier" | tail -1 | cut -c1-140)"
  if [ $rc -ne 0 ]; then echo "$out" | grep -E "VIOLATION|MACHINERY|sig:" | head -5; fi
done
