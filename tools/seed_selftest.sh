#!/bin/bash
# Re-run every seeded change against the checks that are recorded to catch it (meta.json caught_by_quick).
# (checks other than C19 run against a scratch copy of /repo and of the harness - tools/seed_run_iso.sh)
# Exit 0 iff every listed check reports a violation (rc=1) with the change applied and /repo is clean again.
cd /verif || exit 2
fail=0
for d in seeded/${1:-*}/; do
  id=$(basename "$d")
  [ -f "$d/meta.json" ] || continue
  checks=$(python3 -c "import json;print(' '.join(json.load(open('$d/meta.json'))['caught_by_quick']))")
  [ -n "$checks" ] || { echo "$id: no catching check recorded"; continue; }
  tier=$(python3 -c "import json;print(json.load(open('$d/meta.json')).get('tier','quick'))")
  iso=""; direct=""
  for c in $checks; do if [ "$c" = "C19" ]; then direct="$direct $c"; else iso="$iso $c"; fi; done
  out=""
  [ -n "$iso" ] && out="$(tools/seed_run_iso.sh "$PWD/$d/patch.diff" $tier $iso | grep -E '^C[0-9]+ ')"
  [ -n "$direct" ] && out="$out
$(tools/seed_run.sh "$PWD/$d/patch.diff" $tier $direct | grep -E '^C[0-9]+ ')"
  echo "$out" | sed "s/^/$id: /"
  echo "$out" | grep -q "rc=0" && fail=1
  echo "$out" | grep -q "rc=2" && fail=1
done
[ $fail -eq 0 ] && echo "SELFTEST OK: every seeded change is reported" || echo "SELFTEST FAILED"
exit $fail
