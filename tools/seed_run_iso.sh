#!/bin/bash
# tools/seed_run_iso.sh <patch.diff> <tier> <Cxx> [Cxx...]
# Like seed_run.sh, but leaves /repo alone: the patch is applied to a scratch worktree
# (/tmp/sr/repo), a copy of the harness is pointed at it and built into /tmp/sr/target.
# (C19's Miri / ASan sub-runs build from /verif/harness and therefore from /repo: use seed_run.sh for C19.)
patch="$(realpath "$1")"; tier="$2"; shift 2
export CARGO_NET_OFFLINE=true
mkdir -p /tmp/sr
if [ ! -d /tmp/sr/repo ]; then git -C /repo worktree add -q --detach /tmp/sr/repo HEAD || exit 2; fi
git -C /tmp/sr/repo checkout -q --detach "$(git -C /repo rev-parse HEAD)" && git -C /tmp/sr/repo checkout -- . || exit 2
git -C /tmp/sr/repo apply "$patch" || { echo "patch does not apply"; exit 2; }
rsync -a --delete --exclude target /verif/harness/ /tmp/sr/harness/
find /tmp/sr/harness -name Cargo.toml -exec sed -i 's#"/repo/#"/tmp/sr/repo/#' {} +
sed -i 's#/verif/target#/tmp/sr/target#' /tmp/sr/harness/.cargo/config.toml
export VERIF_EVIDENCE_DIR=/tmp/sr/evidence VERIF_REPLAYS_DIR=/tmp/sr/replays; mkdir -p $VERIF_EVIDENCE_DIR $VERIF_REPLAYS_DIR
cd /tmp/sr/harness || exit 2
for id in "$@"; do
  case "$id" in
    C01|C02|C03|C04|C05|C06|C20) pkg=vp-net ;; C07|C08) pkg=vp-codec ;; C09|C10|C11|C12|C13) pkg=vp-snap ;;
    C14) pkg=vp-gamenet ;; C15|C16|C17) pkg=vp-files ;; C18|C19) pkg=vp-misc ;; *) echo "unknown $id"; continue ;;
  esac
  bin=$(echo "$id" | tr 'A-Z' 'a-z')
  s=$(date +%s)
  if ! cargo build --release --offline -p $pkg --bin $bin > /tmp/sr/build.log 2>&1; then echo "$id BUILD FAILED"; tail -5 /tmp/sr/build.log; continue; fi
  out=$(VERIF_TIER=$tier /tmp/sr/target/release/$bin $tier 2>&1); rc=$?
  e=$(date +%s)
  echo "$id $tier rc=$rc $((e-s))s $(echo "$out" | grep -E 'sig:' | head -3 | tr '\n' ' ' | cut -c1-300)"
done
git -C /tmp/sr/repo checkout -- .
