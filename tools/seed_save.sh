#!/bin/bash
# tools/seed_save.sh <seed-src-dir> <dest-id> <caught> <missed|-> <note>
# copies <seed-src-dir>/{patch.diff,demo,meta.json} into /verif/seeded/<dest-id> and writes meta.json
src="$1"; id="$2"
mkdir -p /verif/seeded/$id/demo
cp "$src/patch.diff" /verif/seeded/$id/patch.diff
cp -r "$src/demo/." /verif/seeded/$id/demo/
cp "$src/meta.json" /verif/seeded/$id/agent_meta.json
python3 /verif/tools/seed_meta.py "$id" "$3" "$4" "$5"
