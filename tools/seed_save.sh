#!/bin/bash
# tools/seed_save.sh <id> <caught> <missed|-> <note>   (copies /tmp/seed/<id>/SEED into /verif/seeded/<id> and writes meta.json)
id="$1"
mkdir -p /verif/seeded/$id/demo
cp /tmp/seed/$id/SEED/patch.diff /verif/seeded/$id/patch.diff
cp -r /tmp/seed/$id/SEED/demo/. /verif/seeded/$id/demo/
cp /tmp/seed/$id/SEED/meta.json /verif/seeded/$id/agent_meta.json
python3 /verif/tools/seed_meta.py "$id" "$2" "$3" "$4"
