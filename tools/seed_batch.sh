#!/bin/bash
# tools/seed_batch.sh <suffix> [ids...]   verify every /tmp/seedout/<Cxx>-<suffix> (suite passes, demo fails/passes)
# and run the quick check of its property against it (isolated copy). Log lines start with "## <id>".
suf="$1"; shift
ids="$@"; [ -z "$ids" ] && ids=$(ls /tmp/seedout | grep -- "-$suf\$")
for id in $ids; do
  d=/tmp/seedout/$id
  [ -f $d/patch.diff ] && [ -f $d/meta.json ] || { echo "## $id: no deliverables"; continue; }
  dst=$(python3 -c "import json;print(json.load(open('$d/meta.json'))['demo_dst'])")
  args=$(python3 -c "import json;print(' '.join(json.load(open('$d/meta.json'))['demo_cargo_args']))")
  src=$d/demo/$(basename $dst)
  echo "## $id verify ($dst; $args)"
  /verif/tools/seed_verify.sh $d "$src" "$dst" $args 2>&1 | sed "s/^/   /"
  prop=${id%%-*}
  echo "## $id check"
  if [ "$prop" = "C19x" ]; then /verif/tools/seed_run.sh $d/patch.diff quick $prop 2>&1 | grep -E "^C[0-9]+ " | sed "s/^/   /"
  else /verif/tools/seed_run_iso.sh $d/patch.diff quick $prop 2>&1 | grep -E "^C[0-9]+ |does not apply|BUILD" | sed "s/^/   /"; fi
done
echo "## done"
